//! C19 — depth is limited by memory, not by the host's native stack.
//!
//! Domain: a grid of scenarios {direction of nesting} x {operation} x depth
//! {10^3, 10^4, 10^5} x {main thread (8 MiB stack), thread with a 2 MiB stack}
//! x build profile {checked; plain in the thorough tier}, plus mixed-direction
//! shapes whose direction is chosen per level by a choice sequence.
//! EVERY scenario runs in its own child process (`mwv c19child <scenario>`).
//! Oracle: the child's exit status. A normal exit (the operation completed or
//! reported an error) is required; death by signal is the violation. An
//! allocation failure and a timeout are inconclusive.
//!
//! A scenario is a sequence of *phases*; the child announces each phase before
//! it starts, so a death is attributed to the phase it happened in. Phases that
//! only prepare the structure for the operation under test carry the operation
//! they themselves exercise (e.g. `equal?` needs two structures built at run
//! time: a death while building is a death of the cell `<direction>|build`, and
//! the `equal?` cell is *blocked* at that depth, not failed).
//! Values of the SUT's types are `mem::forget`-ed at the end of every phase that
//! is not about dropping, so that the implicit recursive drop of `Cell` is seen
//! only in the `drop` cells.
//!
//! Signature: `C19|<direction>|<operation>` — without depth, thread or profile.

use crate::ctx::{Ctx, Outcome, Tier};
use crate::driver;
use crate::props::Prop;
use crate::sut::guard;
use marwood::cell::Cell;
use marwood::number::Number;
use marwood::vm::Vm;
use mwv_core::choice::{fnv, hex, unhex, Choices};
use serde_json::{json, Value};
use std::io::Write;
use std::time::Duration;

pub struct C19;

const AS_LIMIT_BYTES: u64 = 8 << 30;
const MAIN_STACK_BYTES: u64 = 8 << 20;
const SMALL_STACK_BYTES: usize = 2 << 20;
const CHILD_TIMEOUT_S: u64 = 150;
const CHILD_TIMEOUT_THOROUGH_S: u64 = 600;
const DEPTHS: [usize; 3] = [1_000, 10_000, 100_000];
const THREADS: [&str; 2] = ["main", "2MiB"];

const DATA_DIRS: [&str; 4] = ["cdr-list", "car-list", "vector", "quote-chain"];
const DATA_OPS: [&str; 7] = ["read", "quote", "build", "gc", "equal?", "write", "drop"];

/// The cells of the grid that exist. Data directions take every operation.
/// Closures and continuations have no external representation (no read/quote) and compare by
/// identity (no equal?). Non-tail recursion is a computation: build = run it to completion,
/// gc = collect while it is suspended at depth and while a continuation captured at depth is
/// live, drop = abandon it at depth through an error. Nested expressions are read, evaluated
/// (compiled, which includes macro expansion, and run) and dropped.
pub fn cells() -> Vec<(&'static str, &'static str)> {
    let mut v = vec![];
    for d in DATA_DIRS {
        for o in DATA_OPS {
            v.push((d, o));
        }
    }
    for d in ["closure-chain", "continuation-chain"] {
        for o in ["build", "gc", "write", "drop"] {
            v.push((d, o));
        }
    }
    for o in ["build", "gc", "drop"] {
        v.push(("nontail", o));
    }
    for d in ["expr-call", "expr-let"] {
        for o in ["read", "eval", "drop"] {
            v.push((d, o));
        }
    }
    v
}

// ---------------------------------------------------------------------------------------------
// scenarios

#[derive(Clone, Debug)]
pub struct Scn {
    dir: String,
    op: String,
    depth: usize,
    thread: String,
    profile: String,
    /// mixed shapes only: the choice bytes the per-level directions are decoded from
    shape: Option<Vec<u8>>,
    /// `write` of data only: "print" = format a datum built by the harness (the printer alone);
    /// absent = return the structure as the value of an evaluation, then format that value
    variant: Option<String>,
}

impl Scn {
    fn to_json(&self) -> Value {
        let mut v = json!({"dir": self.dir, "op": self.op, "depth": self.depth,
            "thread": self.thread, "profile": self.profile});
        if let Some(x) = &self.variant {
            v["variant"] = json!(x);
        }
        if let Some(s) = &self.shape {
            v["shape"] = json!(hex(s));
            v["pattern"] = json!(pattern_text(&decode_pattern(s)));
        }
        v
    }
    fn from_json(v: &Value) -> Option<Scn> {
        let mut s = Scn {
            dir: v["dir"].as_str()?.to_string(),
            op: v["op"].as_str()?.to_string(),
            depth: v["depth"].as_u64()? as usize,
            thread: v["thread"].as_str().unwrap_or("main").to_string(),
            profile: v["profile"].as_str().unwrap_or("checked").to_string(),
            shape: v["shape"].as_str().map(unhex),
            variant: v["variant"].as_str().map(|x| x.to_string()),
        };
        if s.dir.starts_with("mixed") {
            // the direction label of a mixed shape is always computed from the shape
            let p = decode_pattern(s.shape.as_deref().unwrap_or(&[]));
            s.dir = mixed_label(&p, s.depth).to_string();
        }
        Some(s)
    }
    fn cell(&self) -> String {
        format!("{}|{}", self.dir, self.op)
    }
    /// the cell, with the variant where there is one (for the class histogram)
    fn label(&self) -> String {
        match &self.variant {
            Some(x) => format!("{}|{}({})", self.dir, self.op, x),
            None => self.cell(),
        }
    }
    fn key(&self) -> String {
        format!(
            "{}|{}{}|{}|{}|{}|{}",
            self.dir,
            self.op,
            self.variant.as_ref().map(|x| format!("({})", x)).unwrap_or_default(),
            self.depth,
            self.thread,
            self.profile,
            self.shape.as_ref().map(|s| hex(s)).unwrap_or_default()
        )
    }
}

/// Directions of one level of a data shape.
#[derive(Clone, Copy, Debug, PartialEq, Eq)]
enum Lv {
    Cdr,
    Car,
    Vec,
    Quote,
}

/// The expanded pattern of a mixed shape: level j (0 = innermost) has direction
/// pattern[j mod len]. Decoded from choice bytes: 1..=12 runs, each a direction
/// and a run length from {1, 1, 2, 5, 50, 1000}.
fn decode_pattern(bytes: &[u8]) -> Vec<Lv> {
    let mut c = Choices::new(bytes);
    let runs = 1 + c.below(12);
    let mut out = vec![];
    for _ in 0..runs {
        let d = match c.weighted(&[4, 3, 2, 2]) {
            0 => Lv::Cdr,
            1 => Lv::Car,
            2 => Lv::Vec,
            _ => Lv::Quote,
        };
        let n = *c.pick(&[1usize, 1, 2, 5, 50, 1000]);
        for _ in 0..n {
            out.push(d);
        }
    }
    out
}

fn pattern_text(p: &[Lv]) -> String {
    // run-length rendering, innermost level first
    let mut s = String::new();
    let mut i = 0;
    while i < p.len() {
        let mut j = i;
        while j < p.len() && p[j] == p[i] {
            j += 1;
        }
        if !s.is_empty() {
            s.push(' ');
        }
        s.push_str(&format!("{:?}x{}", p[i], j - i).to_lowercase());
        i = j;
    }
    s
}

/// Direction label of a mixed shape, computed from the shape: `mixed` when at least 1000 of its
/// levels nest through car / vector / quote, `mixed-shallow` otherwise (then every native
/// recursion through it is shallower than 1000 levels and it must behave like a cdr-list).
fn mixed_label(pattern: &[Lv], depth: usize) -> &'static str {
    let per = pattern.iter().filter(|l| **l != Lv::Cdr).count();
    let full = depth / pattern.len().max(1);
    let rem = depth % pattern.len().max(1);
    let n = per * full + pattern[..rem].iter().filter(|l| **l != Lv::Cdr).count();
    if n >= 1000 {
        "mixed"
    } else {
        "mixed-shallow"
    }
}

fn levels_of(scn: &Scn) -> Option<(Vec<Lv>, &'static str)> {
    // (pattern, leaf text)
    match scn.dir.as_str() {
        "cdr-list" => Some((vec![Lv::Cdr], "()")),
        "car-list" => Some((vec![Lv::Car], "()")),
        "vector" => Some((vec![Lv::Vec], "()")),
        "quote-chain" => Some((vec![Lv::Quote], "x")),
        "mixed" | "mixed-shallow" => {
            let p = decode_pattern(scn.shape.as_deref().unwrap_or(&[]));
            Some((p, "()"))
        }
        _ => None,
    }
}

/// A mixed scenario decoded from choice bytes (depth log-uniform in 10^3..10^5).
fn mixed_scenario(bytes: &[u8], profile: &str) -> Scn {
    let mut c = Choices::new(bytes);
    let op = *c.pick(&DATA_OPS);
    let thread = *c.pick(&THREADS);
    // log-uniform depth: 1000 * 10^(k/128), k in 0..=256
    let k = c.below(257) as f64;
    let depth = (1000.0 * 10f64.powf(k / 128.0)).round() as usize;
    let print = c.flip();
    let shape: Vec<u8> = bytes[c.consumed().min(bytes.len())..].to_vec();
    let pattern = decode_pattern(&shape);
    Scn {
        dir: mixed_label(&pattern, depth).to_string(),
        op: op.to_string(),
        depth,
        thread: thread.to_string(),
        profile: profile.to_string(),
        shape: Some(shape),
        variant: if op == "write" && print { Some("print".to_string()) } else { None },
    }
}

/// splitmix64 byte stream: the choice bytes of random shapes are a pure function of the seed.
fn seeded_bytes(seed: u64, n: usize) -> Vec<u8> {
    let mut s = seed;
    let mut out = Vec::with_capacity(n);
    while out.len() < n {
        s = s.wrapping_add(0x9E37_79B9_7F4A_7C15);
        let mut z = s;
        z = (z ^ (z >> 30)).wrapping_mul(0xBF58_476D_1CE4_E5B9);
        z = (z ^ (z >> 27)).wrapping_mul(0x94D0_49BB_1331_11EB);
        z ^= z >> 31;
        out.extend_from_slice(&z.to_le_bytes());
    }
    out.truncate(n);
    out
}

// ---------------------------------------------------------------------------------------------
// the child: runs one scenario, announces phases, exits 0

fn say(line: &str) {
    let out = std::io::stdout();
    let mut out = out.lock();
    let _ = writeln!(out, "{}", line);
    let _ = out.flush();
}

fn phase(name: &str) {
    say(&format!("C19-PHASE {}", name));
}

#[inline(never)]
fn prefault_stack() {
    // Grow the main thread's stack mapping to (almost) its limit now, so that a later failure to
    // grow it can only be the stack limit itself and never the address-space limit.
    let big = [0u8; (MAIN_STACK_BYTES as usize) - (1 << 20)];
    std::hint::black_box(&big);
}

pub fn child_main(arg: &str) -> ! {
    std::env::set_var("RUST_BACKTRACE", "0");
    unsafe {
        // a main-thread stack of exactly 8 MiB (the Linux default), whatever the caller's ulimit
        let mut cur = libc::rlimit { rlim_cur: 0, rlim_max: 0 };
        libc::getrlimit(libc::RLIMIT_STACK, &mut cur);
        if cur.rlim_cur != MAIN_STACK_BYTES && std::env::var_os("C19_REEXEC").is_none() {
            let lim = libc::rlimit { rlim_cur: MAIN_STACK_BYTES, rlim_max: cur.rlim_max };
            if libc::setrlimit(libc::RLIMIT_STACK, &lim) == 0 {
                use std::os::unix::process::CommandExt;
                let exe = std::env::current_exe().expect("current_exe");
                let err = std::process::Command::new(exe)
                    .arg("c19child")
                    .arg(arg)
                    .env("C19_REEXEC", "1")
                    .exec();
                eprintln!("c19child: re-exec failed: {}", err);
                std::process::exit(3);
            }
        }
        let lim = libc::rlimit { rlim_cur: AS_LIMIT_BYTES, rlim_max: AS_LIMIT_BYTES };
        libc::setrlimit(libc::RLIMIT_AS, &lim);
    }
    let v: Value = match serde_json::from_str(arg) {
        Ok(v) => v,
        Err(e) => {
            eprintln!("c19child: bad scenario: {}", e);
            std::process::exit(3);
        }
    };
    let scn = match Scn::from_json(&v) {
        Some(s) => s,
        None => {
            eprintln!("c19child: bad scenario");
            std::process::exit(3);
        }
    };
    crate::sut::install_panic_hook();
    let end = if scn.thread == "main" {
        prefault_stack();
        run_guarded(&scn)
    } else {
        let s2 = scn.clone();
        let h = std::thread::Builder::new()
            .name("c19-small-stack".into())
            .stack_size(SMALL_STACK_BYTES)
            .spawn(move || run_guarded(&s2))
            .expect("cannot spawn thread");
        match h.join() {
            Ok(s) => s,
            Err(_) => "panic (thread)".to_string(),
        }
    };
    say(&format!("C19-END {}", end));
    std::process::exit(0)
}

fn run_guarded(scn: &Scn) -> String {
    match guard(|| run_scenario(scn)) {
        Ok(Ok(note)) => format!("completed {}", note),
        Ok(Err(e)) => format!("error {}", e.chars().take(200).collect::<String>()),
        Err(p) => format!("panic {}", p.chars().take(200).collect::<String>()),
    }
}

fn num(i: i64) -> Cell {
    Cell::Number(Number::Fixnum(i))
}

fn sym(s: &str) -> Cell {
    Cell::Symbol(s.to_string())
}

/// The datum of a data shape, built iteratively through the Cell constructors (no reader).
fn datum_cell(pattern: &[Lv], leaf: &str, depth: usize) -> Cell {
    let mut acc = if leaf == "()" { Cell::Nil } else { sym(leaf) };
    if pattern.len() == 1 && pattern[0] == Lv::Cdr {
        return Cell::new_improper_list((0..depth).map(|_| num(1)), acc);
    }
    for j in 0..depth {
        acc = match pattern[j % pattern.len()] {
            Lv::Cdr => Cell::Pair(Box::new(num(1)), Box::new(acc)),
            Lv::Car => Cell::Pair(Box::new(acc), Box::new(Cell::Nil)),
            Lv::Vec => Cell::Vector(vec![acc]),
            Lv::Quote => Cell::Pair(
                Box::new(sym("quote")),
                Box::new(Cell::Pair(Box::new(acc), Box::new(Cell::Nil))),
            ),
        };
    }
    acc
}

/// The text of a data shape. Runs of cdr levels are written flat, `(1 1 1 . inner)`, or as a
/// proper list when the inner datum is `()`.
fn datum_text(pattern: &[Lv], leaf: &str, depth: usize) -> String {
    let mut pre = String::new();
    let mut suf_rev: Vec<&'static str> = vec![];
    let mut j = depth;
    while j > 0 {
        let l = pattern[(j - 1) % pattern.len()];
        match l {
            Lv::Cdr => {
                let mut r = 0;
                while j > 0 && pattern[(j - 1) % pattern.len()] == Lv::Cdr {
                    r += 1;
                    j -= 1;
                }
                pre.push('(');
                for i in 0..r {
                    if i > 0 {
                        pre.push(' ');
                    }
                    pre.push('1');
                }
                if j == 0 && leaf == "()" {
                    // proper list: no dotted tail, the leaf is the list terminator
                    pre.push(')');
                    return finish_text(pre, None, suf_rev);
                }
                pre.push_str(" . ");
                suf_rev.push(")");
            }
            Lv::Car => {
                pre.push('(');
                suf_rev.push(")");
                j -= 1;
            }
            Lv::Vec => {
                pre.push_str("#(");
                suf_rev.push(")");
                j -= 1;
            }
            Lv::Quote => {
                pre.push('\'');
                j -= 1;
            }
        }
    }
    finish_text(pre, Some(leaf), suf_rev)
}

fn finish_text(mut pre: String, leaf: Option<&str>, suf_rev: Vec<&'static str>) -> String {
    if let Some(l) = leaf {
        pre.push_str(l);
    }
    for s in suf_rev.iter().rev() {
        pre.push_str(s);
    }
    pre
}

const HELPERS: &str = r#"
(define (c19-wrap acc d)
  (if (= d 0) (cons 1 acc)
      (if (= d 1) (cons acc '())
          (if (= d 2) (vector acc)
              (cons 'quote (cons acc '()))))))
(define (c19-build n pat0 leaf)
  (define (loop j p acc)
    (if (= j n) acc
        (if (null? p)
            (loop j pat0 acc)
            (loop (+ j 1) (cdr p) (c19-wrap acc (car p))))))
  (loop 0 pat0 leaf))
(define (c19-descend x n)
  (if (vector? x)
      (c19-descend (vector-ref x 0) (+ n 1))
      (if (pair? x)
          (if (eq? (car x) 'quote)
              (c19-descend (car (cdr x)) (+ n 1))
              (if (number? (car x))
                  (c19-descend (cdr x) (+ n 1))
                  (c19-descend (car x) (+ n 1))))
          n)))
(define (c19-rows n kind acc)
  (if (= n 0) acc
      (c19-rows (- n 1) kind
                (cons (if (= kind 0) (cons n "v")
                          (if (= kind 1) (vector n 'r)
                              (list n (list n))))
                      acc))))
(define (c19-mv n acc)
  (if (= n 0) acc (c19-mv (- n 1) (make-vector 1 acc))))
(define (c19-lv n acc)
  (if (= n 0) acc (c19-lv (- n 1) (list->vector (list acc)))))
(define (c19-closures n prev)
  (if (= n 0) prev (c19-closures (- n 1) (lambda () (+ 1 (prev))))))
(define (c19-conts n prev)
  (if (= n 0) prev (c19-conts (- n 1) (call/cc (lambda (k) k)))))
(define (c19-deep n) (if (= n 0) 0 (+ 1 (c19-deep (- n 1)))))
(define (c19-deep-fail n) (if (= n 0) (car '()) (+ 1 (c19-deep-fail (- n 1)))))
(define c19-k #f)
(define c19-hits 0)
(define (c19-deep-k n)
  (if (= n 0) (call/cc (lambda (c) (set! c19-k c) 0)) (+ 1 (c19-deep-k (- n 1)))))
"#;

fn eval_all(vm: &mut Vm, text: &str) -> Result<Cell, String> {
    let mut rest: Option<&str> = Some(text);
    let mut last = Cell::Void;
    while let Some(t) = rest {
        if t.trim().is_empty() {
            break;
        }
        match vm.eval_text(t) {
            Ok((c, r)) => {
                last = c;
                rest = r;
            }
            Err(e) => return Err(format!("{}", e).chars().take(200).collect()),
        }
    }
    Ok(last)
}

fn new_vm() -> Result<Vm, String> {
    let mut vm = Vm::new();
    eval_all(&mut vm, HELPERS)?;
    Ok(vm)
}

/// Make the heap so large that building a structure of `depth` levels never reaches the
/// collector's 75 % trigger: allocate and release 12 x depth cells through a builtin (a flat
/// loop in the library), collect them, and reset the collection counter. The operations that
/// are not about building use this, so that the structure exists when their own phase starts
/// and a death of the marker during a natural collection is seen in the build cell only.
fn pregrow(vm: &mut Vm, depth: usize) -> Result<(), String> {
    eval_all(vm, &format!("(null? (vector->list (make-vector {} 0)))", depth * 6))?;
    vm.verif_force_gc();
    vm.verif_reset_counters();
    Ok(())
}

fn natural(vm: &Vm) -> String {
    let h = vm.verif_heap();
    format!(
        "collections-during-setup={} heap-cells={} used={}",
        vm.verif_collections(),
        h.verif_cells().len(),
        h.verif_cells().len() - h.verif_free_list().len()
    )
}

fn pattern_literal(p: &[Lv]) -> String {
    let codes: Vec<&str> = p
        .iter()
        .map(|l| match l {
            Lv::Cdr => "0",
            Lv::Car => "1",
            Lv::Vec => "2",
            Lv::Quote => "3",
        })
        .collect();
    format!("'({})", codes.join(" "))
}

fn build_form(var: &str, pattern: &[Lv], leaf: &str, depth: usize) -> String {
    format!(
        "(define {} (c19-build {} {} '{}))",
        var,
        depth,
        pattern_literal(pattern),
        leaf
    )
}

fn run_scenario(scn: &Scn) -> Result<String, String> {
    let n = scn.depth;
    if let Some((pattern, leaf)) = levels_of(scn) {
        return run_data(scn, &pattern, leaf);
    }
    match (scn.dir.as_str(), scn.op.as_str()) {
        ("closure-chain", op) | ("continuation-chain", op) => {
            let closures = scn.dir == "closure-chain";
            let mut vm = new_vm()?;
            if op != "build" {
                pregrow(&mut vm, n)?;
            }
            phase(if op == "build" { "build" } else { "setup:build" });
            let form = if closures {
                format!("(define x (c19-closures {} (lambda () 0)))", n)
            } else {
                format!("(define x (c19-conts {} #f))", n)
            };
            eval_all(&mut vm, &form)?;
            let mut note = natural(&vm);
            match op {
                "build" => {
                    if closures {
                        phase("build:call-through");
                        let r = eval_all(&mut vm, "(x)")?;
                        note = format!("{} call-through={:#}", note, r);
                    }
                }
                "gc" => {
                    phase("gc:collect");
                    vm.verif_force_gc();
                    vm.verif_force_gc();
                    phase("gc:use-after-collect");
                    let r = eval_all(&mut vm, if closures { "(x)" } else { "(procedure? x)" })?;
                    note = format!("{} after-collect={:#}", note, r);
                }
                "write" => {
                    phase("write:result-conversion");
                    let r = eval_all(&mut vm, "x")?;
                    phase("write:format");
                    let s = format!("{:#}", r);
                    note = format!("{} written={}", note, s.chars().take(40).collect::<String>());
                    std::mem::forget(r);
                }
                "drop" => {
                    phase("drop:vm");
                    drop(vm);
                    return Ok(note);
                }
                _ => return Err(format!("no such cell {}", scn.cell())),
            }
            std::mem::forget(vm);
            Ok(note)
        }
        ("nontail", "build") => {
            let mut vm = new_vm()?;
            phase("build");
            let r = eval_all(&mut vm, &format!("(c19-deep {})", n))?;
            std::mem::forget(vm);
            Ok(format!("value={:#}", r))
        }
        ("nontail", "gc") => {
            let mut vm = new_vm()?;
            phase("gc:suspend-at-depth");
            let (form, _) = marwood::parse::parse_text(&format!("(c19-deep {})", n))
                .map_err(|e| e.to_string())?;
            vm.prepare_eval(&form).map_err(|e| e.to_string())?;
            let mut last_sp = 0usize;
            let mut max_sp = 0usize;
            let mut result: Option<Cell> = None;
            loop {
                match vm.run_count(2000).map_err(|e| e.to_string())? {
                    Some(c) => {
                        result = Some(c);
                        break;
                    }
                    None => {
                        let sp = vm.verif_stack().get_sp();
                        max_sp = max_sp.max(sp);
                        if sp <= last_sp {
                            break; // the recursion has turned round: we are near the bottom
                        }
                        last_sp = sp;
                    }
                }
            }
            if result.is_none() {
                phase("gc:collect-at-depth");
                vm.verif_force_gc();
                vm.verif_force_gc();
                phase("gc:resume");
                result = vm.run_count(usize::MAX).map_err(|e| e.to_string())?;
            }
            let first = format!("{:#}", result.unwrap_or(Cell::Void));
            phase("gc:capture-continuation-at-depth");
            eval_all(&mut vm, &format!("(define r (c19-deep-k {}))", n))?;
            phase("gc:collect-with-deep-continuation");
            vm.verif_force_gc();
            vm.verif_force_gc();
            phase("gc:re-enter-deep-continuation");
            eval_all(
                &mut vm,
                "(if (< c19-hits 1) (begin (set! c19-hits (+ c19-hits 1)) (c19-k 0)) 0)",
            )?;
            let r = eval_all(&mut vm, "r")?;
            std::mem::forget(vm);
            Ok(format!("value={} sp-at-collect={} re-entered={:#}", first, max_sp, r))
        }
        ("nontail", "drop") => {
            let mut vm = new_vm()?;
            phase("drop:error-at-depth");
            let r = eval_all(&mut vm, &format!("(c19-deep-fail {})", n));
            let frames = vm.last_stacktrace().map(|t| t.frames.len()).unwrap_or(0);
            let after = eval_all(&mut vm, "(c19-deep 10)")?;
            // a continuation captured at depth outlives another abandoned computation and is
            // re-entered afterwards
            phase("drop:capture-at-depth");
            eval_all(&mut vm, &format!("(c19-deep-k {})", n))?;
            phase("drop:error-at-depth");
            let _ = eval_all(&mut vm, "(c19-deep-fail 50)");
            phase("drop:re-enter-continuation-captured-at-depth");
            let back = eval_all(&mut vm, "(if (< c19-hits 1) (begin (set! c19-hits (+ c19-hits 1)) (c19-k 7)) 'done)")?;
            let after = format!("{:#} re-entered={:#}", after, back);
            phase("drop:vm");
            drop(vm);
            match r {
                Err(e) => Ok(format!(
                    "expected-error={} frames={} next={:#}",
                    e.chars().take(40).collect::<String>(),
                    frames,
                    after
                )),
                Ok(c) => Ok(format!("unexpected-value={:#}", c)),
            }
        }
        ("expr-call", op) | ("expr-let", op) => {
            let call = scn.dir == "expr-call";
            match op {
                "read" => {
                    let mut text = String::new();
                    for _ in 0..n {
                        text.push_str(if call { "(+ 1 " } else { "(let ((x 1)) " });
                    }
                    text.push_str(if call { "0" } else { "x" });
                    for _ in 0..n {
                        text.push(')');
                    }
                    phase("read");
                    let r = marwood::parse::parse_text(&text);
                    let note = match &r {
                        Ok(_) => "parsed".to_string(),
                        Err(e) => format!("parse-error={}", e),
                    };
                    std::mem::forget(r);
                    Ok(note)
                }
                "eval" | "drop" => {
                    let mut acc = if call { num(0) } else { sym("x") };
                    for _ in 0..n {
                        acc = if call {
                            Cell::new_list(vec![sym("+"), num(1), acc])
                        } else {
                            Cell::new_list(vec![
                                sym("let"),
                                Cell::new_list(vec![Cell::new_list(vec![sym("x"), num(1)])]),
                                acc,
                            ])
                        };
                    }
                    if op == "drop" {
                        phase("drop:datum");
                        drop(acc);
                        return Ok(String::new());
                    }
                    let mut vm = new_vm()?;
                    phase("eval");
                    let r = vm.eval(&acc);
                    let note = match &r {
                        Ok(c) => format!("value={:#}", c),
                        Err(e) => format!("eval-error={}", e).chars().take(120).collect(),
                    };
                    std::mem::forget(acc);
                    std::mem::forget(vm);
                    Ok(note)
                }
                _ => Err(format!("no such cell {}", scn.cell())),
            }
        }
        _ => Err(format!("no such cell {}", scn.cell())),
    }
}

fn run_data(scn: &Scn, pattern: &[Lv], leaf: &str) -> Result<String, String> {
    let n = scn.depth;
    let op = scn.op.as_str();
    let setup = |name: &str| {
        if op == name {
            phase(name)
        } else {
            phase(&format!("setup:{}", name))
        }
    };
    match op {
        "write" if scn.variant.as_deref() == Some("print") => {
            // the printer alone, on a datum built by the harness
            let datum = datum_cell(pattern, leaf, n);
            phase("write:format-datum");
            let s = format!("{:#}", datum);
            let s2 = format!("{}", datum);
            std::mem::forget(datum);
            Ok(format!("written-bytes={}+{}", s.len(), s2.len()))
        }
        "read" => {
            let text = datum_text(pattern, leaf, n);
            phase("read");
            let r = marwood::parse::parse_text(&text);
            let note = match &r {
                Ok((_, rest)) => format!("parsed rest={}", rest.is_some()),
                Err(e) => format!("parse-error={}", e),
            };
            std::mem::forget(r);
            Ok(note)
        }
        "quote" => {
            let datum = datum_cell(pattern, leaf, n);
            let form = Cell::new_list(vec![
                sym("define"),
                sym("x"),
                Cell::new_list(vec![sym("quote"), datum]),
            ]);
            let mut vm = new_vm()?;
            phase("quote");
            let r = vm.eval(&form);
            let note = match &r {
                Ok(_) => {
                    let d = eval_all(&mut vm, "(c19-descend x 0)")?;
                    format!("levels={:#}", d)
                }
                Err(e) => format!("eval-error={}", e).chars().take(120).collect(),
            };
            std::mem::forget(form);
            std::mem::forget(vm);
            Ok(note)
        }
        "build" | "gc" | "equal?" | "write" => {
            let mut vm = new_vm()?;
            if op != "build" {
                pregrow(&mut vm, if op == "equal?" { 2 * n } else { n })?;
            }
            setup("build");
            eval_all(&mut vm, &build_form("x", pattern, leaf, n))?;
            let mut note = String::new();
            match op {
                "build" => {
                    if scn.dir == "cdr-list" {
                        // the library's own list procedures over the long list
                        phase("build:list-procedures");
                        let progs = [
                            "(define y (append x x))",
                            "(define y (append x '(2) x))",
                            "(define y (list-tail x (- (length x) 1)))",
                            "(define y (list-ref x (- (length x) 1)))",
                            "(define y (reverse x))",
                            "(define y (list->vector x))",
                            "(define y (vector->list y))",
                            "(define y (memv 2 x))",
                            "(define y (list? x))",
                            "(define y (apply + x))",
                            "(define y (map (lambda (e) (+ e 1)) x))",
                            "(define y (length y))",
                        ];
                        for p in progs {
                            eval_all(&mut vm, p).map_err(|e| format!("{}: {}", p, e))?;
                        }
                        let r = eval_all(&mut vm, "y")?;
                        note = format!("list-procedures-last={:#}", r);
                    } else {
                        let d = eval_all(&mut vm, "(c19-descend x 0)")?;
                        note = format!("levels={:#}", d);
                        if scn.dir == "vector" {
                            // the same nest built with make-vector's fill argument
                            phase("build");
                            eval_all(&mut vm, &format!("(define xm (c19-mv {} '()))", n))?;
                            let d = eval_all(&mut vm, "(c19-descend xm 0)")?;
                            note = format!("{} make-vector-levels={:#}", note, d);
                            eval_all(&mut vm, &format!("(define xl (c19-lv {} '()))", n))?;
                            let d = eval_all(&mut vm, "(c19-descend xl 0)")?;
                            note = format!("{} list->vector-levels={:#}", note, d);
                        }
                    }
                }
                "gc" => {
                    let nat = natural(&vm);
                    phase("gc:collect");
                    vm.verif_force_gc();
                    vm.verif_force_gc();
                    phase("gc:use-after-collect");
                    let d = eval_all(&mut vm, "(c19-descend x 0)")?;
                    note = format!("{} levels-after-collect={:#}", nat, d);
                    if scn.dir == "vector" {
                        phase("setup:build");
                        eval_all(&mut vm, &format!("(define xm (c19-mv {} '())) (define xl (c19-lv {} '()))", n, n))?;
                        phase("gc:collect");
                        vm.verif_force_gc();
                        vm.verif_force_gc();
                        phase("gc:use-after-collect");
                        let d = eval_all(&mut vm, "(+ (c19-descend xm 0) (c19-descend xl 0))")?;
                        note = format!("{} make-vector+list->vector-levels-after-collect={:#}", note, d);
                    }
                }
                "equal?" => {
                    phase("setup:build");
                    eval_all(&mut vm, &build_form("y", pattern, leaf, n))?;
                    let nat = natural(&vm);
                    phase("equal?");
                    let r = eval_all(&mut vm, "(equal? x y)")?;
                    note = format!("{} equal={:#}", nat, r);
                    if scn.dir == "cdr-list" {
                        // long in the cdr direction only, but with elements that are equal? without
                        // being eqv?: an association list, a list of vectors, a list of lists
                        for (kind, name) in ["association-list", "list-of-vectors", "list-of-lists"].iter().enumerate() {
                            phase("setup:build");
                            eval_all(&mut vm, &format!("(define x (c19-rows {} {} '())) (define y (c19-rows {} {} '()))", n, kind, n, kind))?;
                            phase("equal?");
                            let r = eval_all(&mut vm, "(equal? x y)")?;
                            if format!("{:#}", r) != "#t" {
                                return Err(format!("(equal? x y) on two separately built copies of a {} of {} elements is {:#}", name, n, r));
                            }
                        }
                        note = format!("{} rows-equal=#t", note);
                    }
                }
                "write" => {
                    let nat = natural(&vm);
                    phase("write:result-conversion");
                    let r = eval_all(&mut vm, "x")?;
                    phase("write:format");
                    let s = format!("{:#}", r);
                    let s2 = format!("{}", r);
                    note = format!("{} written-bytes={}+{}", nat, s.len(), s2.len());
                    std::mem::forget(r);
                }
                _ => unreachable!(),
            }
            std::mem::forget(vm);
            Ok(note)
        }
        "drop" => {
            let datum = datum_cell(pattern, leaf, n);
            phase("drop:datum");
            drop(datum);
            let mut vm = new_vm()?;
            pregrow(&mut vm, n)?;
            phase("setup:build");
            eval_all(&mut vm, &build_form("x", pattern, leaf, n))?;
            let nat = natural(&vm);
            phase("drop:vm");
            drop(vm);
            Ok(nat)
        }
        _ => Err(format!("no such cell {}", scn.cell())),
    }
}

// ---------------------------------------------------------------------------------------------
// the parent side: run a scenario in a child and classify

#[derive(Debug, Clone)]
enum Res {
    Completed(String),
    ReportedError(String),
    Panic(String),
    /// died by a signal in the phase named; the cell the death belongs to
    Aborted { phase: String, cell_op: String, signal: String, stack_msg: bool, stderr: String },
    Inconclusive(String),
}

fn root() -> String {
    driver::verif_root()
}

fn plain_exe() -> String {
    format!("{}/harness/target/plain/mwv", root())
}

fn exe_for(profile: &str) -> String {
    if profile == "plain" {
        plain_exe()
    } else {
        std::env::current_exe().unwrap().to_string_lossy().to_string()
    }
}

/// Operation a phase belongs to: "setup:build" -> build, "gc:collect" -> gc, "read" -> read.
fn phase_op(phase: &str) -> String {
    let p = phase.strip_prefix("setup:").unwrap_or(phase);
    p.split(':').next().unwrap_or(p).to_string()
}

struct Proc {
    status: String, // "ok" | "timeout" | "signal:<n>" | "exit:<n>"
    lines: Vec<String>,
    stderr_tail: String,
}

/// Like `driver::one_shot`, but the output is collected by joining the reader threads (they end
/// at end-of-file, which the death of the child guarantees) instead of waiting a fixed time for
/// them: on a loaded machine a fixed wait loses the phase lines now and then.
fn run_process(exe: &str, args: &[String], limit: Duration) -> Proc {
    use std::io::Read;
    use std::process::{Command, Stdio};
    let mut child = match Command::new(exe)
        .args(args)
        .stdin(Stdio::null())
        .stdout(Stdio::piped())
        .stderr(Stdio::piped())
        .spawn()
    {
        Ok(c) => c,
        Err(e) => {
            return Proc { status: "exit:-1".into(), lines: vec![], stderr_tail: format!("cannot spawn: {}", e) }
        }
    };
    let mut out = child.stdout.take().unwrap();
    let mut err = child.stderr.take().unwrap();
    let t_out = std::thread::spawn(move || {
        let mut b = Vec::new();
        let _ = out.read_to_end(&mut b);
        b
    });
    let t_err = std::thread::spawn(move || {
        let mut b = Vec::new();
        let _ = err.read_to_end(&mut b);
        b
    });
    let start = std::time::Instant::now();
    let status;
    loop {
        match child.try_wait() {
            Ok(Some(st)) => {
                use std::os::unix::process::ExitStatusExt;
                status = if let Some(sig) = st.signal() {
                    format!("signal:{}", sig)
                } else if st.code() == Some(0) {
                    "ok".to_string()
                } else {
                    format!("exit:{}", st.code().unwrap_or(-1))
                };
                break;
            }
            Ok(None) => {
                if start.elapsed() > limit {
                    let _ = child.kill();
                    let _ = child.wait();
                    status = "timeout".to_string();
                    break;
                }
                std::thread::sleep(Duration::from_millis(if start.elapsed().as_millis() < 200 { 2 } else { 10 }));
            }
            Err(_) => {
                status = "exit:-1".to_string();
                break;
            }
        }
    }
    let out = t_out.join().unwrap_or_default();
    let err = t_err.join().unwrap_or_default();
    let lines: Vec<String> = String::from_utf8_lossy(&out).lines().map(|l| l.to_string()).collect();
    let elines: Vec<String> = String::from_utf8_lossy(&err).lines().map(|l| l.to_string()).collect();
    let n = elines.len();
    Proc { status, lines, stderr_tail: elines[n.saturating_sub(6)..].join(" | ") }
}

fn run_child(scn: &Scn, timeout_s: u64) -> Res {
    let exe = exe_for(&scn.profile);
    if !std::path::Path::new(&exe).exists() {
        return Res::Inconclusive(format!("no binary for profile {}", scn.profile));
    }
    let r = run_process(
        &exe,
        &["c19child".to_string(), scn.to_json().to_string()],
        Duration::from_secs(timeout_s),
    );
    let mut last_phase = "startup".to_string();
    let mut end: Option<String> = None;
    for l in &r.lines {
        if let Some(p) = l.strip_prefix("C19-PHASE ") {
            last_phase = p.trim().to_string();
        } else if let Some(e) = l.strip_prefix("C19-END ") {
            end = Some(e.to_string());
        }
    }
    if r.status == "timeout" {
        return Res::Inconclusive(format!("timeout in phase {}", last_phase));
    }
    if r.stderr_tail.contains("memory allocation of") || r.stderr_tail.contains("out of memory") {
        return Res::Inconclusive(format!("allocation failure in phase {}", last_phase));
    }
    if r.status.starts_with("signal") {
        if last_phase == "startup" {
            return Res::Inconclusive(format!(
                "child died before the first phase ({}; {} stdout lines; stderr: {})",
                r.status,
                r.lines.len(),
                r.stderr_tail
            ));
        }
        return Res::Aborted {
            cell_op: phase_op(&last_phase),
            phase: last_phase,
            signal: r.status.clone(),
            stack_msg: r.stderr_tail.contains("overflowed its stack")
                || r.stderr_tail.contains("stack overflow"),
            stderr: r.stderr_tail.chars().take(200).collect(),
        };
    }
    match (r.status.as_str(), end) {
        ("ok", Some(e)) => {
            if let Some(n) = e.strip_prefix("completed") {
                Res::Completed(n.trim().to_string())
            } else if let Some(n) = e.strip_prefix("error") {
                Res::ReportedError(n.trim().to_string())
            } else {
                Res::Panic(e.strip_prefix("panic").unwrap_or(&e).trim().to_string())
            }
        }
        (st, _) => Res::Inconclusive(format!(
            "child exited with {} without a result line; stderr: {}",
            st, r.stderr_tail
        )),
    }
}

fn depth_label(d: usize) -> String {
    match d {
        1_000 => "10^3".into(),
        10_000 => "10^4".into(),
        100_000 => "10^5".into(),
        o => o.to_string(),
    }
}

/// Run one scenario and record it. Returns the outcome for replay.
fn run_and_record(ctx: &Ctx, scn: &Scn) -> Outcome {
    ctx.beat();
    let t0 = std::time::Instant::now();
    let res = run_child(scn, ctx.tier.pick(CHILD_TIMEOUT_S, CHILD_TIMEOUT_THOROUGH_S));
    let ms = t0.elapsed().as_millis() as u64;
    ctx.extra_max("max_child_ms", ms);
    ctx.extra_add("child_ms_total", ms);
    if ms >= 5_000 {
        ctx.class(&format!("slow child (>= 5 s): {}", scn.key()));
    }
    ctx.count(1);
    if scn.depth >= 10_000 {
        ctx.nontrivial(fnv(scn.key().as_bytes()));
    }
    let cell = scn.label();
    let at = format!("d={} thread={} profile={}", depth_label(scn.depth), scn.thread, scn.profile);
    let payload = scn.to_json();
    let mut outcome = Outcome::Pass;
    let class = match &res {
        Res::Completed(_) => format!("{}: completed", cell),
        Res::ReportedError(_) => format!("{}: reported-error", cell),
        Res::Panic(msg) => {
            let sig = format!("C19|{}|{}|panic", scn.dir, scn.op);
            let detail = format!("the operation panicked instead of completing or reporting an error ({}): {}", at, msg);
            let known = ctx.report("scenario", payload.clone(), &sig, &detail);
            outcome = Outcome::fail(sig, detail, payload.clone());
            format!("{}: panicked{} {}", cell, if known { "(known)" } else { "(VIOLATION)" }, at)
        }
        Res::Aborted { phase, cell_op, signal, stack_msg, stderr } => {
            let sig = format!("C19|{}|{}", scn.dir, cell_op);
            let detail = format!(
                "child process died by {} in phase '{}' of scenario {} ({}); native stack overflow reported by the runtime: {}; stderr: {}",
                signal, phase, cell, at, stack_msg, stderr
            );
            let known = ctx.report("scenario", payload.clone(), &sig, &detail);
            outcome = Outcome::fail(sig, detail, payload.clone());
            let tag = if known { "aborted(known)" } else { "aborted(VIOLATION)" };
            if *cell_op == scn.op {
                format!("{}: {} in phase {} {}", cell, tag, phase, at)
            } else {
                format!("{}: blocked (its setup died: {}|{} {}) {}", cell, scn.dir, cell_op, tag, at)
            }
        }
        Res::Inconclusive(why) => {
            ctx.discard(&format!("inconclusive: {}", why.split(" in phase").next().unwrap_or(why)));
            format!("{}: inconclusive ({}) {}", cell, why, at)
        }
    };
    let note = match &res {
        Res::Completed(n) | Res::ReportedError(n) | Res::Panic(n) | Res::Inconclusive(n) => n.clone(),
        Res::Aborted { phase, signal, .. } => format!("{} in {}", signal, phase),
    };
    ctx.class_with_sample(&class, || json!({"scenario": payload, "outcome": note, "ms": ms}));
    if scn.depth >= 10_000 {
        ctx.sample(|| json!({"scenario": scn.to_json(), "outcome": class}));
    }
    outcome
}

// ---------------------------------------------------------------------------------------------
// the plain-profile binary (thorough tier)

/// Build `mwv` with `--profile plain` into the same target directory, once per run (the workers
/// serialise on a lock file; the stamp holds the driver's pid and the SUT path).
fn ensure_plain(ctx: &Ctx) -> Result<(), String> {
    let dir = format!("{}/harness", root());
    let _ = std::fs::create_dir_all(format!("{}/target", dir));
    let lock_path = format!("{}/target/.c19-plain.lock", dir);
    let stamp_path = format!("{}/target/.c19-plain.stamp", dir);
    let lock = std::fs::OpenOptions::new()
        .create(true)
        .write(true)
        .truncate(false)
        .open(&lock_path)
        .map_err(|e| e.to_string())?;
    use std::os::unix::io::AsRawFd;
    loop {
        let r = unsafe { libc::flock(lock.as_raw_fd(), libc::LOCK_EX | libc::LOCK_NB) };
        if r == 0 {
            break;
        }
        ctx.beat();
        std::thread::sleep(Duration::from_millis(200));
    }
    let sut = std::fs::read_link(format!("{}/sut", root()))
        .map(|p| p.to_string_lossy().to_string())
        .unwrap_or_default();
    let run_id = format!("{} {}", unsafe { libc::getppid() }, sut);
    let stamp = std::fs::read_to_string(&stamp_path).unwrap_or_default();
    let result = if stamp == run_id && std::path::Path::new(&plain_exe()).exists() {
        Ok(())
    } else {
        let mut res = Ok(());
        if stamp.split_once(' ').map(|x| x.1.to_string()).unwrap_or_default() != sut {
            // cargo decides by mtime: after switching trees force marwood to be rebuilt
            let _ = std::process::Command::new("cargo")
                .args(["clean", "--profile", "plain", "--offline", "-p", "marwood"])
                .current_dir(&dir)
                .stdout(std::process::Stdio::null())
                .stderr(std::process::Stdio::null())
                .status();
        }
        match std::process::Command::new("cargo")
            .args(["build", "--profile", "plain", "--offline", "-q", "-p", "mwv"])
            .current_dir(&dir)
            .stdin(std::process::Stdio::null())
            .stdout(std::process::Stdio::null())
            .stderr(std::process::Stdio::null())
            .spawn()
        {
            Ok(mut child) => loop {
                match child.try_wait() {
                    Ok(Some(st)) => {
                        if !st.success() {
                            res = Err(format!("cargo build --profile plain failed: {}", st));
                        }
                        break;
                    }
                    Ok(None) => {
                        ctx.beat();
                        std::thread::sleep(Duration::from_millis(200));
                    }
                    Err(e) => {
                        res = Err(e.to_string());
                        break;
                    }
                }
            },
            Err(e) => res = Err(format!("cannot run cargo: {}", e)),
        }
        if res.is_ok() {
            let _ = std::fs::write(&stamp_path, &run_id);
        }
        res
    };
    unsafe {
        libc::flock(lock.as_raw_fd(), libc::LOCK_UN);
    }
    result
}

// ---------------------------------------------------------------------------------------------

/// Compiling a nested expression costs more than quadratic time (3000 levels 2.6 s, 6000 levels
/// 17 s, 10^4 levels 74 s of CPU; `expr-let` exhausts 8 GiB after 50 s). On the 2 MiB thread the
/// same scenarios die within milliseconds; at 10^5 they die at once on both threads.
fn too_slow_for_quick(scn: &Scn) -> bool {
    scn.dir.starts_with("expr-") && scn.op == "eval" && scn.depth == 10_000 && scn.thread == "main"
}

fn grid(profile: &str) -> Vec<Scn> {
    let mut v = vec![];
    // deepest first within each shard's share would serialise the slow ones; interleave instead
    for depth in DEPTHS {
        for thread in THREADS {
            for (dir, op) in cells() {
                let scn = Scn {
                    dir: dir.to_string(),
                    op: op.to_string(),
                    depth,
                    thread: thread.to_string(),
                    profile: profile.to_string(),
                    shape: None,
                    variant: None,
                };
                if op == "write" && DATA_DIRS.contains(&dir) {
                    v.push(Scn { variant: Some("print".to_string()), ..scn.clone() });
                }
                v.push(scn);
            }
        }
    }
    v
}

impl Prop for C19 {
    fn id(&self) -> &'static str {
        "C19"
    }

    fn rule(&self) -> &'static str {
        "grid {direction: cdr-list, car-list, vector, quote-chain, closure-chain, continuation-chain, nontail, expr-call, expr-let} x {operation: read, quote, build, gc, equal?, write, drop, eval - the 45 cells that make sense; write of data runs as two children: value of an evaluation + its formatting, and the printer alone on a datum built by the harness} x depth {10^3, 10^4, 10^5} x {main thread with an 8 MiB stack, thread with a 2 MiB stack} x profile {checked; plain in the thorough tier}, plus mixed-direction data shapes (direction per level from a choice sequence: 1..12 runs of cdr/car/vector/quote of length 1..1000, repeated; depth log-uniform in 10^3..10^5; operation and thread from the same bytes; 48 per seed quick, 2000 thorough). Every scenario = one child process; an evaluation = one child run. Non-trivial: depth >= 10^4; distinct by (cell, variant, depth, thread, profile, shape bytes)."
    }

    fn assumptions(&self) -> Vec<&'static str> {
        vec![
            "oracle = exit status of the child: death by a signal in an announced phase is the violation; exit 0 with a 'completed' or 'error' line is required; a panic caught in the child is reported under its own signature kind (|panic)",
            "an allocation failure (Rust's 'memory allocation of N bytes failed' on stderr, address-space limit 8 GiB) and a timeout (150 s per child) are inconclusive, never violations",
            "the main thread's stack is fixed at 8 MiB (the child re-executes itself under that limit and pre-faults the stack); the small thread has 2 MiB",
            "a death is attributed to the phase announced last; preparation phases belong to the cell of the operation they perform (setup:build -> <direction>|build), and the cell under test is then 'blocked' at that depth",
            "values of the library's types are forgotten (not dropped) after every phase that is not a drop phase, and the child leaves through process::exit",
            "collections are forced through Vm::verif_force_gc (the real run_gc); natural collections also happen while structures are built at run time",
            "cells listed in KNOWN_FINDINGS.txt are still executed at every depth and their outcomes recorded, but cannot raise a violation",
        ]
    }

    fn case_timeout_s(&self) -> u64 {
        CHILD_TIMEOUT_THOROUGH_S + 120
    }

    fn replay_timeout_s(&self) -> u64 {
        CHILD_TIMEOUT_S * 2
    }

    fn run(&self, ctx: &Ctx) {
        let mut work: Vec<Scn> = grid("checked");
        let n_mixed = ctx.tier.pick(48usize, 1000usize);
        let mixed_profiles: &[&str] = ctx.tier.pick(&["checked"], &["checked", "plain"]);
        // mixed shapes: a pure function of VERIF_SEED and the index
        let mut mixed: Vec<Scn> = vec![];
        for (pi, profile) in mixed_profiles.iter().enumerate() {
            for i in 0..n_mixed {
                let mut b = Vec::new();
                b.extend_from_slice(&ctx.seed.to_le_bytes());
                b.extend_from_slice(&(i as u64).to_le_bytes());
                b.extend_from_slice(&(pi as u64).to_le_bytes());
                b.extend_from_slice(b"c19-mixed");
                let bytes = seeded_bytes(fnv(&b), 40);
                mixed.push(mixed_scenario(&bytes, profile));
            }
        }
        work.extend(mixed.iter().filter(|s| s.profile == "checked").cloned());
        let mine = |i: usize| i % ctx.nshards == ctx.shard;
        for (i, scn) in work.iter().enumerate() {
            if mine(i) {
                if ctx.tier == Tier::Quick && too_slow_for_quick(scn) {
                    ctx.discard("left to the thorough tier: expr-*|eval at 10^4 on the main thread (compile time grows faster than n^2: about a minute of CPU each)");
                    continue;
                }
                run_and_record(ctx, scn);
            }
        }
        if ctx.tier == Tier::Thorough {
            match ensure_plain(ctx) {
                Ok(()) => {
                    let mut work2 = grid("plain");
                    work2.extend(mixed.iter().filter(|s| s.profile == "plain").cloned());
                    for (i, scn) in work2.iter().enumerate() {
                        // shift so that the shard that got the slow tail before gets the head now
                        if (i + 7) % ctx.nshards == ctx.shard {
                            run_and_record(ctx, scn);
                        }
                    }
                }
                Err(e) => {
                    ctx.discard("plain profile could not be built");
                    ctx.extra("plain_build_error", json!(e));
                }
            }
        }
        if ctx.shard == 0 {
            ctx.extra("cells", json!(cells().len()));
        }
    }

    fn replay(&self, ctx: &Ctx, _kind: &str, payload: &Value) -> Outcome {
        let scn = match Scn::from_json(payload) {
            Some(s) => s,
            None => return Outcome::Discard,
        };
        if scn.profile == "plain" && !std::path::Path::new(&plain_exe()).exists() {
            let _ = ensure_plain(ctx);
        }
        run_and_record(ctx, &scn)
    }
}
