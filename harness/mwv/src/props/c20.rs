//! C20 — the REPL highlighter marks exactly the matching bracket and nothing else.
//!
//! Domain: (a) exhaustive: every string of <= L lexemes over the alphabet
//! `( ) [ ] #( " ; newline space a #\(` with every cursor 0..=len+2, tokenised
//! by the harness' own tokenizer; (b) random Unicode token soup with random
//! cursors (also past the end and inside multi-byte characters), tokenised by
//! the SUT's scanner (whose span discipline is C11's business).
//! Oracle: reference partner search by nesting count over the token stream.

use crate::ctx::{Ctx, Outcome, Tier};
use crate::props::Prop;
use crate::sut::guard;
use marwood::lex::{self, TokenType};
use marwood::syntax::ReplHighlighter;
use mwv_core::choice::{unhex, Choices};
use serde_json::{json, Value};

pub struct C20;

/// The first 11 lexemes are the alphabet of the statement (enumerated exhaustively); the others
/// (Unicode white space, a multi-byte identifier character, braces) only occur in the random
/// pass over the harness' own tokenisation.
const ALPHABET: [&str; 18] = [
    "(", ")", "[", "]", "#(", "\"", ";", "\n", " ", "a", "#\\(", "\t", "\u{a0}", "\u{85}", "\u{b}", "λ", "{", "}",
];
const EXHAUSTIVE_LEXEMES: usize = 11;
const ESC_ON: &str = "\x1b[4m";
const ESC_OFF: &str = "\x1b[0m";

#[derive(Clone, Copy, Debug, PartialEq, Eq)]
enum Kind {
    Open,
    Close,
    Other,
}

#[derive(Clone, Debug)]
struct Tok {
    span: (usize, usize),
    kind: Kind,
}

/// The harness' own tokenizer for strings over ALPHABET. Returns None when the
/// text does not scan (unterminated string). A `;` starts a comment unless it
/// is inside a string; it runs to the next newline.
/// The second result says whether a `;` directly follows an identifier
/// character somewhere outside a string. marwood's lexer takes such a `;` as
/// part of the identifier (a side effect of its `\xNN;` symbol escapes) where
/// R7RS starts a comment; `semi_in_ident = true` tokenises that way, so that
/// the known finding can be told apart from any other disagreement.
fn ref_tokens(lexemes: &[usize], semi_in_ident: bool) -> (Option<Vec<Tok>>, bool) {
    let mut toks = vec![];
    let mut pos = 0usize;
    let mut i = 0;
    let mut ident_semicolon = false;
    while i < lexemes.len() {
        let lx = ALPHABET[lexemes[i]];
        match lx {
            "(" | "[" | "{" | "#(" => {
                toks.push(Tok { span: (pos, pos + lx.len()), kind: Kind::Open });
                pos += lx.len();
                i += 1;
            }
            ")" | "]" | "}" => {
                toks.push(Tok { span: (pos, pos + 1), kind: Kind::Close });
                pos += 1;
                i += 1;
            }
            "\"" => {
                let start = pos;
                pos += 1;
                i += 1;
                let mut closed = false;
                while i < lexemes.len() {
                    let l2 = ALPHABET[lexemes[i]];
                    pos += l2.len();
                    i += 1;
                    if l2 == "\"" {
                        closed = true;
                        break;
                    }
                }
                if !closed {
                    return (None, ident_semicolon);
                }
                toks.push(Tok { span: (start, pos), kind: Kind::Other });
            }
            ";" => {
                if i > 0 && matches!(ALPHABET[lexemes[i - 1]], "a" | "λ") {
                    ident_semicolon = true;
                }
                while i < lexemes.len() && ALPHABET[lexemes[i]] != "\n" {
                    pos += ALPHABET[lexemes[i]].len();
                    i += 1;
                }
            }
            "\n" | " " | "\t" | "\u{a0}" | "\u{85}" | "\u{b}" => {
                pos += lx.len();
                i += 1;
            }
            "a" | "λ" => {
                let start = pos;
                while i < lexemes.len()
                    && (matches!(ALPHABET[lexemes[i]], "a" | "λ") || (semi_in_ident && ALPHABET[lexemes[i]] == ";"))
                {
                    pos += ALPHABET[lexemes[i]].len();
                    i += 1;
                }
                toks.push(Tok { span: (start, pos), kind: Kind::Other });
            }
            "#\\(" => {
                toks.push(Tok { span: (pos, pos + 3), kind: Kind::Other });
                pos += 3;
                i += 1;
            }
            _ => unreachable!(),
        }
    }
    (Some(toks), ident_semicolon)
}

fn sut_tokens(text: &str) -> Option<Vec<Tok>> {
    match lex::scan(text) {
        Ok(ts) => Some(
            ts.iter()
                .map(|t| Tok {
                    span: t.span,
                    kind: match t.token_type {
                        TokenType::LeftParen | TokenType::HashParen => Kind::Open,
                        TokenType::RightParen => Kind::Close,
                        _ => Kind::Other,
                    },
                })
                .collect(),
        ),
        Err(_) => None,
    }
}

fn covering(toks: &[Tok], idx: usize) -> Option<usize> {
    toks.iter().position(|t| idx >= t.span.0 && idx < t.span.1)
}

fn partner(toks: &[Tok], i: usize) -> Option<usize> {
    let mut depth = 0usize;
    match toks[i].kind {
        Kind::Open => {
            for (j, t) in toks.iter().enumerate().skip(i + 1) {
                match t.kind {
                    Kind::Open => depth += 1,
                    Kind::Close => {
                        if depth == 0 {
                            return Some(j);
                        }
                        depth -= 1;
                    }
                    Kind::Other => {}
                }
            }
            None
        }
        Kind::Close => {
            for j in (0..i).rev() {
                match toks[j].kind {
                    Kind::Close => depth += 1,
                    Kind::Open => {
                        if depth == 0 {
                            return Some(j);
                        }
                        depth -= 1;
                    }
                    Kind::Other => {}
                }
            }
            None
        }
        Kind::Other => None,
    }
}

fn shape_ok(text: &str, a: &Tok, b: &Tok) -> bool {
    let (o, c) = if a.kind == Kind::Open { (a, b) } else { (b, a) };
    let ot = &text[o.span.0..o.span.1];
    let ct = &text[c.span.0..c.span.1];
    matches!((ot, ct), ("(", ")") | ("#(", ")") | ("[", "]") | ("{", "}"))
}

fn underline(text: &str, t: &Tok) -> String {
    format!(
        "{}{}{}{}{}",
        &text[..t.span.0],
        ESC_ON,
        &text[t.span.0..t.span.1],
        ESC_OFF,
        &text[t.span.1..]
    )
}

/// Acceptable outputs of `highlight(text, cursor)` given the reference tokens.
fn acceptable(text: &str, toks: &Option<Vec<Tok>>, cursor: usize) -> Vec<String> {
    let unchanged = text.to_string();
    let toks = match toks {
        Some(t) => t,
        None => return vec![unchanged],
    };
    let at = covering(toks, cursor);
    let before = if cursor > 0 { covering(toks, cursor - 1) } else { None };
    let mut out: Vec<String> = vec![];
    let push_for = |ti: usize, out: &mut Vec<String>| {
        let t = &toks[ti];
        if t.kind == Kind::Other {
            out.push(unchanged.clone());
            return;
        }
        match partner(toks, ti) {
            Some(p) => {
                out.push(underline(text, &toks[p]));
                if !shape_ok(text, t, &toks[p]) {
                    // mismatched shapes: "no properly nested partner" is a fair reading too
                    out.push(unchanged.clone());
                }
            }
            None => out.push(unchanged.clone()),
        }
    };
    match (at, before) {
        (Some(a), b) => {
            push_for(a, &mut out);
            // cursor sits on a non-bracket token but a bracket is just before it:
            // either reading of "at or just before" is accepted
            if toks[a].kind == Kind::Other {
                if let Some(b) = b {
                    if b != a && toks[b].kind != Kind::Other {
                        push_for(b, &mut out);
                    }
                }
            }
        }
        (None, Some(b)) => push_for(b, &mut out),
        (None, None) => out.push(unchanged),
    }
    out
}

fn bracket_near(toks: &Option<Vec<Tok>>, i: usize) -> bool {
    match toks {
        None => false,
        Some(ts) => {
            let lo = i.saturating_sub(2);
            ts.iter()
                .any(|t| t.kind != Kind::Other && t.span.0 <= i && t.span.1 > lo)
        }
    }
}

struct Verdict {
    /// (text, cursor) of the call made just before on the shared instance, if that matters
    previous: Option<(String, usize)>,
    fail: Option<(String, String)>,
    nontrivial: bool,
    highlighted: bool,
}

thread_local! {
    /// one highlighter instance serves every call of a worker, as one instance serves a
    /// whole REPL session: the answer must not depend on earlier calls
    static SHARED_HL: ReplHighlighter = ReplHighlighter::new();
    static PREVIOUS: std::cell::RefCell<(String, usize)> = const { std::cell::RefCell::new((String::new(), 0)) };
}

fn check_one(text: &str, toks: &Option<Vec<Tok>>, cursor: usize, flags: &str) -> Verdict {
    let v = SHARED_HL.with(|hl| check_with(hl, text, toks, cursor, flags));
    let prev = PREVIOUS.with(|p| std::mem::replace(&mut *p.borrow_mut(), (text.to_string(), cursor)));
    if v.fail.is_some() {
        // does a fresh instance give the right answer? then the defect is history dependence
        let fresh = check_with(&ReplHighlighter::new(), text, toks, cursor, flags);
        if fresh.fail.is_none() {
            let mut v = v;
            v.previous = Some(prev.clone());
            let (_, detail) = v.fail.take().unwrap();
            v.fail = Some((
                format!("C20|depends-on-earlier-calls{}", flags),
                format!("after highlight({:?}, {}) on the same highlighter instance: {} (a fresh instance answers correctly)", prev.0, prev.1, detail),
            ));
            return v;
        }
    }
    v
}

fn check_with(hl: &ReplHighlighter, text: &str, toks: &Option<Vec<Tok>>, cursor: usize, flags: &str) -> Verdict {
    let mut v = Verdict { previous: None, fail: None, nontrivial: false, highlighted: false };
    let nbr = toks
        .as_ref()
        .map(|t| t.iter().filter(|t| t.kind != Kind::Other).count())
        .unwrap_or(0);
    let touches = toks
        .as_ref()
        .map(|t| {
            covering(t, cursor).map(|i| t[i].kind != Kind::Other).unwrap_or(false)
                || (cursor > 0
                    && covering(t, cursor - 1).map(|i| t[i].kind != Kind::Other).unwrap_or(false))
        })
        .unwrap_or(false);
    v.nontrivial = nbr >= 2 && touches;
    match guard(|| hl.highlight(text, cursor).to_string()) {
        Err(p) => {
            v.fail = Some((format!("C20|highlight|panic{}", flags), format!("highlight panicked: {}", p)));
            return v;
        }
        Ok(out) => {
            v.highlighted = out != text;
            // generic shape: at most one escape pair, removing it restores the input
            let pairs = out.matches(ESC_ON).count();
            let stripped = out.replacen(ESC_ON, "", 1).replacen(ESC_OFF, "", 1);
            let text_has_esc = text.contains(ESC_ON) || text.contains(ESC_OFF);
            if !text_has_esc && (pairs > 1 || stripped != text) {
                v.fail = Some((
                    format!("C20|highlight|not-one-pair{}", flags),
                    format!("output {:?} is not the input plus one escape pair", out),
                ));
                return v;
            }
            let acc = acceptable(text, toks, cursor);
            if !acc.iter().any(|a| *a == out) {
                let kind = if out == text { "missing" } else if acc.iter().all(|a| a == text) { "spurious" } else { "wrong-bracket" };
                v.fail = Some((
                    format!("C20|highlight|{}{}", kind, flags),
                    format!("highlight({:?}, {}) = {:?}; acceptable: {:?}", text, cursor, out, acc),
                ));
                return v;
            }
        }
    }
    match guard(|| hl.highlight_check(text, cursor)) {
        Err(p) => {
            v.fail = Some((format!("C20|highlight_check|panic{}", flags), format!("highlight_check panicked: {}", p)));
        }
        Ok(b) => {
            if b && !bracket_near(toks, cursor) {
                v.fail = Some((
                    format!("C20|highlight_check|true-without-bracket{}", flags),
                    format!("highlight_check({:?}, {}) = true but no bracket token intersects [{}-2, {}]", text, cursor, cursor, cursor),
                ));
            }
        }
    }
    v
}

fn lexemes_of(mut idx: u64, len: usize) -> Vec<usize> {
    let mut v = vec![0; len];
    for slot in v.iter_mut().rev() {
        *slot = (idx % EXHAUSTIVE_LEXEMES as u64) as usize;
        idx /= EXHAUSTIVE_LEXEMES as u64;
    }
    v
}

/// Check one (text, cursor) of the exhaustive domain. A failure against the
/// R7RS tokenisation that disappears under marwood's `identifier;` reading is
/// the known lexer finding and gets its own root-cause signature.
fn check_exh(text: &str, lx: &[usize], cursor: usize) -> Verdict {
    let (toks, ident_semi) = ref_tokens(lx, false);
    let mut v = check_one(text, &toks, cursor, "");
    if v.fail.is_some() && ident_semi {
        let (alt, _) = ref_tokens(lx, true);
        let v2 = check_one(text, &alt, cursor, "");
        if v2.fail.is_none() {
            v.fail = Some((
                "C20|semicolon-after-identifier-not-a-comment".to_string(),
                format!("{} (the lexer reads `a;` as one identifier, so the rest of the line is not a comment)", v.fail.unwrap().1),
            ));
        }
    }
    v
}

const SOUP: [&str; 40] = [
    "(", ")", "[", "]", "{", "}", "#(", "\"", ";", "\n", " ", "a", "#\\(", "#\\)", "λ", "\"(\"",
    "\"é)\"", "#\\λ", ";(\n", "'", "`", ",", "12", "#t", ".", "\\", "\"\\\"\"", "日本", "𝒳", "#\\x28",
    "\t", "\u{a0}", "foo", "-", "#\\space", "\"[\"", "|", "#", "\u{2028}", ")(",
];

fn soup_case(bytes: &[u8]) -> (String, usize) {
    let mut c = Choices::new(bytes);
    let n = c.below(24);
    let mut text = String::new();
    for _ in 0..n {
        if c.chance(24) {
            // arbitrary scalar
            let v = c.u32() % 0x110000;
            if let Some(ch) = char::from_u32(v) {
                text.push(ch);
            }
        } else {
            let s: &&str = c.pick(&SOUP[..]);
            text.push_str(s);
        }
    }
    let cursor = c.below(text.len() + 4);
    (text, cursor)
}

/// Random strings of up to 14 lexemes over the whole alphabet (incl. Unicode white space, a
/// multi-byte identifier character and braces), tokenised by the harness itself.
fn ext_outcome(ctx: &Ctx, bytes: &[u8]) -> Outcome {
    let mut c = Choices::new(bytes);
    let n = c.below(15);
    let lx: Vec<usize> = (0..n).map(|_| if c.chance(110) { EXHAUSTIVE_LEXEMES + c.below(ALPHABET.len() - EXHAUSTIVE_LEXEMES) } else { c.below(ALPHABET.len()) }).collect();
    let text: String = lx.iter().map(|l| ALPHABET[*l]).collect();
    let cursor = c.below(text.len() + 3);
    let v = check_exh(&text, &lx, cursor);
    let render = json!({"text": text, "cursor": cursor});
    if v.nontrivial {
        ctx.nontrivial_str(&format!("ext:{}:{}", text, cursor));
        ctx.class("ext:nontrivial");
    }
    if v.highlighted {
        ctx.class("ext:highlighted");
    }
    if lx.iter().any(|l| matches!(ALPHABET[*l], "\u{a0}" | "\u{85}" | "\u{b}" | "\t")) {
        ctx.class("ext:unicode-or-control-white-space");
    }
    ctx.sample(|| render.clone());
    match v.fail {
        Some((sig, detail)) => Outcome::fail(sig, detail, render),
        None => Outcome::Pass,
    }
}

pub fn soup_outcome(ctx: &Ctx, bytes: &[u8]) -> Outcome {
    let (text, cursor) = soup_case(bytes);
    let toks = sut_tokens(&text);
    let v = check_one(&text, &toks, cursor, "|soup");
    let render = json!({"text": text, "cursor": cursor});
    if v.nontrivial {
        ctx.nontrivial_str(&format!("soup:{}:{}", text, cursor));
        ctx.class("soup:nontrivial");
    }
    if v.highlighted {
        ctx.class("soup:highlighted");
    }
    if toks.is_none() {
        ctx.class("soup:scan-failed");
    }
    if !text.is_char_boundary(cursor.min(text.len())) {
        ctx.class("soup:cursor-inside-multibyte-char");
    }
    if cursor > text.len() {
        ctx.class("soup:cursor-past-end");
    }
    ctx.sample(|| render.clone());
    match v.fail {
        Some((sig, detail)) => Outcome::fail(sig, detail, render),
        None => Outcome::Pass,
    }
}

/// Entry point for the coverage-guided fuzz target: arbitrary text + cursor,
/// tokenised by the SUT's scanner.
pub fn fuzz_text(text: &str, cursor: usize) -> Option<(String, String)> {
    let toks = sut_tokens(text);
    check_one(text, &toks, cursor, "|fuzz").fail
}

impl Prop for C20 {
    fn id(&self) -> &'static str {
        "C20"
    }
    fn fuzz_stage(&self) -> Option<(&'static str, u64, usize)> {
        Some(("highlight", 3_000_000, 128))
    }
    fn rule(&self) -> &'static str {
        "exhaustive: all strings of <= L lexemes over { ( ) [ ] #( \" ; newline space a #\\( } (L=5 quick, L=7 thorough) x every cursor 0..=bytes+2, tokenised by the harness' own tokenizer; random strings of <= 14 lexemes over that alphabet extended with tab, U+00A0, U+0085, U+000B (white space below U+0100; the lexer takes every character above U+00FF as an identifier character), a multi-byte identifier character and braces, again tokenised by the harness; random: Unicode token soup with random cursors (tokenised by the SUT's scanner). A case (text, cursor) is non-trivial when the text has >= 2 bracket tokens and the cursor is on or just after one; distinct by (text, cursor)."
    }
    fn assumptions(&self) -> Vec<&'static str> {
        vec![
            "partner = nesting count over the token stream; where partner shapes mismatch, highlighting it or nothing are both accepted",
            "cursor on a non-bracket token directly after a bracket: either reading of 'at or just before' accepted",
            "random texts use the SUT's scanner for token spans (C11 checks that scanner)",
        ]
    }
    fn can_be_exhaustive(&self, _tier: Tier) -> bool {
        true
    }
    fn run(&self, ctx: &Ctx) {
        let max_len = ctx.tier.pick(5usize, 7usize);
        ctx.extra("exhaustive_max_lexemes", json!(max_len));
        let mut global = 0u64;
        let mut strings = 0u64;
        for len in 0..=max_len {
            let total = (EXHAUSTIVE_LEXEMES as u64).pow(len as u32);
            for idx in 0..total {
                global += 1;
                if (global as usize) % ctx.nshards != ctx.shard {
                    continue;
                }
                if idx % 4096 == 0 {
                    ctx.beat();
                }
                strings += 1;
                let lx = lexemes_of(idx, len);
                let text: String = lx.iter().map(|l| ALPHABET[*l]).collect();
                for cursor in 0..=text.len() + 2 {
                    ctx.count(1);
                    let v = check_exh(&text, &lx, cursor);
                    if v.nontrivial {
                        ctx.nontrivial_str(&format!("{}:{}", text, cursor));
                        if v.highlighted {
                            ctx.class_with_sample("exh:nontrivial-highlighted", || json!({"text": text, "cursor": cursor}));
                        }
                    }
                    if let Some((sig, detail)) = v.fail {
                        let mut payload = json!({"text": text, "cursor": cursor});
                        if let Some((pt, pc)) = &v.previous {
                            payload["previous_text"] = json!(pt);
                            payload["previous_cursor"] = json!(pc);
                        }
                        ctx.report("exh", payload, &sig, &detail);
                    }
                }
                if strings % 5000 == 1 {
                    ctx.sample(|| json!({"text": text, "cursors": format!("0..={}", text.len() + 2)}));
                }
            }
        }
        ctx.set_exhaustive(true);
        ctx.extra_add("exhaustive_strings", strings);
        let cases = ctx.tier.pick(4_000u32, 150_000u32);
        ctx.run_bytes("soup", cases, 96, soup_outcome);
        let ext = ctx.tier.pick(3_000u32, 100_000u32);
        ctx.run_bytes("ext", ext, 40, ext_outcome);
    }
    fn replay(&self, ctx: &Ctx, kind: &str, payload: &Value) -> Outcome {
        match kind {
            "soup" => soup_outcome(ctx, &unhex(payload["bytes"].as_str().unwrap_or(""))),
            "ext" => ext_outcome(ctx, &unhex(payload["bytes"].as_str().unwrap_or(""))),
            "fuzz:highlight" => {
                let data = unhex(payload["bytes"].as_str().unwrap_or(""));
                if data.len() < 2 {
                    return Outcome::Discard;
                }
                let text = String::from_utf8_lossy(&data[2..]).to_string();
                let cursor = ((data[0] as usize) << 8 | data[1] as usize) % (text.len() + 4);
                match fuzz_text(&text, cursor) {
                    Some((sig, detail)) => Outcome::fail(sig, detail, json!({"text": text, "cursor": cursor})),
                    None => Outcome::Pass,
                }
            }
            _ => {
                if let Some(pt) = payload["previous_text"].as_str() {
                    let pc = payload["previous_cursor"].as_u64().unwrap_or(0) as usize;
                    SHARED_HL.with(|hl| {
                        let _ = guard(|| hl.highlight(pt, pc).to_string());
                    });
                }
                let text = payload["text"].as_str().unwrap_or("").to_string();
                let cursor = payload["cursor"].as_u64().unwrap_or(0) as usize;
                // re-derive lexemes from the text (greedy over the alphabet)
                let mut lx = vec![];
                let mut rest = text.as_str();
                'outer: while !rest.is_empty() {
                    for (i, a) in ALPHABET.iter().enumerate().rev() {
                        if rest.starts_with(a) {
                            // prefer the longest lexeme: "#(" and "#\(" before "("
                            let best = ALPHABET
                                .iter()
                                .enumerate()
                                .filter(|(_, b)| rest.starts_with(**b))
                                .max_by_key(|(_, b)| b.len())
                                .map(|(j, _)| j)
                                .unwrap_or(i);
                            lx.push(best);
                            rest = &rest[ALPHABET[best].len()..];
                            continue 'outer;
                        }
                    }
                    return Outcome::Discard;
                }
                match check_exh(&text, &lx, cursor).fail {
                    Some((sig, detail)) => Outcome::fail(sig, detail, payload.clone()),
                    None => Outcome::Pass,
                }
            }
        }
    }
}
