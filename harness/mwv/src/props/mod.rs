//! Property registry.
use crate::ctx::{Ctx, Outcome, Tier};
use serde_json::Value;

pub mod c01;
pub mod c02;
pub mod c03;
pub mod c04;
pub mod c05;
pub mod c06;
pub mod c07;
pub mod c08;
pub mod c09;
pub mod c10;
pub mod c11;
pub mod c12;
pub mod c13;
pub mod c14;
pub mod c15;
pub mod c16;
pub mod c17;
pub mod c18;
pub mod c19;
pub mod c20;
pub mod numcommon;
pub mod script;

pub trait Prop {
    fn id(&self) -> &'static str;
    /// how cases are generated and what makes one non-trivial / distinct
    fn rule(&self) -> &'static str;
    fn assumptions(&self) -> Vec<&'static str>;
    /// the work of one shard
    fn run(&self, ctx: &Ctx);
    /// re-execute one recorded case without the property-testing library
    fn replay(&self, ctx: &Ctx, kind: &str, payload: &Value) -> Outcome;
    fn shards(&self, _tier: Tier) -> usize {
        16
    }
    /// watchdog: a worker that prints nothing for this long is killed
    fn case_timeout_s(&self) -> u64 {
        120
    }
    fn replay_timeout_s(&self) -> u64 {
        60
    }
    /// is a confirmed hang/abort of a journaled case a violation of this property?
    fn hang_is_violation(&self) -> bool {
        false
    }
    /// Does an allocation failure of a journaled case count as non-termination (a confirmed
    /// abort) rather than as inconclusive? Only for properties whose generated programs are
    /// bounded and that run under their own address-space limit, so that a runaway loop in the
    /// library dies quickly instead of stalling until the watchdog.
    fn alloc_failure_is_nontermination(&self) -> bool {
        false
    }
    fn max_restarts(&self) -> u32 {
        12
    }
    fn can_be_exhaustive(&self, _tier: Tier) -> bool {
        false
    }
    /// coverage-guided stage of the thorough tier: (cargo-fuzz target, runs, max_len)
    fn fuzz_stage(&self) -> Option<(&'static str, u64, usize)> {
        None
    }
}

pub fn all() -> Vec<Box<dyn Prop>> {
    vec![
        Box::new(c01::C01),
        Box::new(c02::C02),
        Box::new(c03::C03),
        Box::new(c04::C04),
        Box::new(c05::C05),
        Box::new(c06::C06),
        Box::new(c07::C07),
        Box::new(c08::C08),
        Box::new(c09::C09),
        Box::new(c10::C10),
        Box::new(c11::C11),
        Box::new(c12::C12),
        Box::new(c13::C13),
        Box::new(c14::C14),
        Box::new(c15::C15),
        Box::new(c16::C16),
        Box::new(c17::C17),
        Box::new(c18::C18),
        Box::new(c19::C19),
        Box::new(c20::C20),
    ]
}

pub fn lookup(id: &str) -> Option<Box<dyn Prop>> {
    all().into_iter().find(|p| p.id() == id)
}

/// Signature of a hang/abort, computed from the recorded case (its `hang_sig`
/// field if the property provided one) and never from timing details.
pub fn hang_sig(rec: &Value, status: &str) -> String {
    let kind = if status == "timeout" { "hang" } else { "abort" };
    let base = rec["payload"]["hang_sig"]
        .as_str()
        .map(|s| s.to_string())
        .unwrap_or_else(|| {
            format!(
                "{}|{}",
                rec["property"].as_str().unwrap_or("?"),
                rec["kind"].as_str().unwrap_or("?")
            )
        });
    format!("{}|{}", base, kind)
}
