//! Property registry.
use crate::ctx::{Ctx, Outcome, Tier};
use serde_json::Value;

pub mod c14;
pub mod c15;
pub mod c20;
pub mod script;

pub trait Prop {
    fn id(&self) -> &'static str;
    /// how cases are generated and what makes one non-trivial / distinct
    fn rule(&self) -> &'static str;
    fn assumptions(&self) -> Vec<&'static str>;
    /// the work of one shard
    fn run(&self, ctx: &Ctx);
    /// re-execute one recorded case without the property-testing library
    fn replay(&self, ctx: &Ctx, kind: &str, payload: &Value) -> Outcome;
    fn shards(&self, _tier: Tier) -> usize {
        16
    }
    /// watchdog: a worker that prints nothing for this long is killed
    fn case_timeout_s(&self) -> u64 {
        120
    }
    fn replay_timeout_s(&self) -> u64 {
        60
    }
    /// is a confirmed hang/abort of a journaled case a violation of this property?
    fn hang_is_violation(&self) -> bool {
        false
    }
    fn max_restarts(&self) -> u32 {
        40
    }
    fn can_be_exhaustive(&self, _tier: Tier) -> bool {
        false
    }
}

pub fn all() -> Vec<Box<dyn Prop>> {
    vec![Box::new(c14::C14), Box::new(c15::C15), Box::new(c20::C20)]
}

pub fn lookup(id: &str) -> Option<Box<dyn Prop>> {
    all().into_iter().find(|p| p.id() == id)
}

/// Signature of a hang/abort, computed from the recorded case (its `hang_sig`
/// field if the property provided one) and never from timing details.
pub fn hang_sig(rec: &Value, status: &str) -> String {
    let kind = if status == "timeout" { "hang" } else { "abort" };
    let base = rec["payload"]["hang_sig"]
        .as_str()
        .map(|s| s.to_string())
        .unwrap_or_else(|| {
            format!(
                "{}|{}",
                rec["property"].as_str().unwrap_or("?"),
                rec["kind"].as_str().unwrap_or("?")
            )
        });
    format!("{}|{}", base, kind)
}
