//! Shared by the numeric properties (C08, C09, C16): numbers are injected as
//! `Cell::Number` values of a chosen internal representation (the reader is
//! not in the loop) and evaluated through a `Vm` that is reused for many
//! cases; after any error or panic the `Vm` is dropped and a fresh one is
//! created, so a failed evaluation cannot poison later cases.

use crate::sut::guard;
use marwood::cell::Cell;
use marwood::number::Number;
use marwood::vm::Vm;
use mwv_core::numeric::NumRepr;
use num::rational::Rational32;
use num::ToPrimitive;
use std::rc::Rc;

pub fn to_number(r: &NumRepr) -> Number {
    match r {
        NumRepr::Fix(i) => Number::Fixnum(*i),
        NumRepr::Big(b) => Number::BigInt(Rc::new(b.clone())),
        // new_raw: the palette only holds reduced rationals with positive denominators;
        // nothing of the SUT's reduction code runs at injection time
        NumRepr::Rat(n, d) => Number::Rational(Rational32::new_raw(*n, *d)),
        NumRepr::Flo(f) => Number::Float(*f),
    }
}

pub fn from_number(n: &Number) -> NumRepr {
    match n {
        Number::Fixnum(i) => NumRepr::Fix(*i),
        Number::BigInt(b) => NumRepr::Big((**b).clone()),
        Number::Rational(r) => NumRepr::Rat(*r.numer(), *r.denom()),
        Number::Float(f) => NumRepr::Flo(*f),
    }
}

pub fn num_cell(r: &NumRepr) -> Cell {
    Cell::Number(to_number(r))
}

pub fn call(op: &str, args: Vec<Cell>) -> Cell {
    let mut v = vec![Cell::new_symbol(op)];
    v.extend(args);
    Cell::new_list(v)
}

/// A Scheme expression over fixnum constants only that evaluates to the given
/// representation (verified by experiment, and re-verified at run time by
/// `Sut::reach`): small bignum `(- (+ v (* 2^32 2^32)) (* 2^32 2^32))`,
/// integer-valued rational `(/ n 1)`, rational `(/ n d)`.
pub fn reach_expr(r: &NumRepr) -> Option<Cell> {
    let fix = |i: i64| Cell::Number(Number::Fixnum(i));
    match r {
        NumRepr::Big(b) => {
            let v = b.to_i64()?;
            let k = || call("*", vec![fix(4294967296), fix(4294967296)]);
            Some(call("-", vec![call("+", vec![fix(v), k()]), k()]))
        }
        NumRepr::Rat(n, d) => Some(call("/", vec![fix(*n as i64), fix(*d as i64)])),
        _ => None,
    }
}

#[derive(Clone, Debug)]
pub enum Res {
    Num(NumRepr),
    Bool(bool),
    Str(String),
    Other(String),
    Err(String),
    Panic(String),
}

impl Res {
    pub fn show(&self) -> String {
        match self {
            Res::Num(n) => n.render(),
            Res::Bool(b) => format!("{}", if *b { "#t" } else { "#f" }),
            Res::Str(s) => format!("{:?}", s),
            Res::Other(s) => format!("<{}>", s),
            Res::Err(e) => format!("error({})", e),
            Res::Panic(p) => format!("panic({})", p),
        }
    }
}

pub struct Sut {
    vm: Option<Vm>,
    since_fresh: u64,
    pub fresh_vms: u64,
    pub evals: u64,
}

impl Default for Sut {
    fn default() -> Self {
        Sut::new()
    }
}

impl Sut {
    pub fn new() -> Sut {
        Sut { vm: None, since_fresh: 0, fresh_vms: 0, evals: 0 }
    }

    fn vm(&mut self) -> &mut Vm {
        if self.vm.is_none() || self.since_fresh > 20_000 {
            self.vm = Some(Vm::new());
            self.fresh_vms += 1;
            self.since_fresh = 0;
        }
        self.since_fresh += 1;
        self.evals += 1;
        self.vm.as_mut().unwrap()
    }

    fn convert(&mut self, r: Result<Result<Cell, marwood::error::Error>, String>) -> Res {
        match r {
            Ok(Ok(Cell::Number(n))) => Res::Num(from_number(&n)),
            Ok(Ok(Cell::Bool(b))) => Res::Bool(b),
            Ok(Ok(Cell::String(s))) => Res::Str(s),
            Ok(Ok(other)) => Res::Other(format!("{:#}", other)),
            Ok(Err(e)) => {
                self.vm = None;
                Res::Err(e.to_string())
            }
            Err(p) => {
                self.vm = None;
                Res::Panic(p)
            }
        }
    }

    pub fn eval(&mut self, cell: &Cell) -> Res {
        let vm = self.vm();
        let r = guard(|| vm.eval(cell));
        self.convert(r)
    }

    pub fn eval_text(&mut self, text: &str) -> Res {
        let vm = self.vm();
        let r = guard(|| vm.eval_text(text).map(|(c, _)| c));
        self.convert(r)
    }

    /// Evaluate the reachability expression of `r`; `Some(cell)` (the
    /// expression) iff it really produces that representation and value.
    pub fn reach(&mut self, r: &NumRepr) -> Option<Cell> {
        let e = reach_expr(r)?;
        match self.eval(&e) {
            Res::Num(got) if got.class() == r.class() && got.same_number(r) => Some(e),
            _ => None,
        }
    }
}

/// Human-readable Scheme spelling of an operand (for reports and samples only).
pub fn spell(r: &NumRepr) -> String {
    match r {
        NumRepr::Fix(i) => format!("{}", i),
        NumRepr::Big(b) => {
            if b.to_i64().is_some() {
                format!("{}[as bignum]", b)
            } else {
                format!("{}", b)
            }
        }
        NumRepr::Rat(n, 1) => format!("{}/1", n),
        NumRepr::Rat(n, d) => format!("{}/{}", n, d),
        NumRepr::Flo(f) => {
            if f.is_finite() {
                format!("{:e}", f)
            } else if *f > 0.0 {
                "+inf.0".into()
            } else {
                "-inf.0".into()
            }
        }
    }
}

pub fn spell_call(op: &str, args: &[NumRepr]) -> String {
    let mut s = format!("({}", op);
    for a in args {
        s.push(' ');
        s.push_str(&spell(a));
    }
    s.push(')');
    s
}
