//! Executes a store-model script (mwv_core::store) against a fresh `Vm`:
//! every form is injected as a `Cell` (the SUT's reader is not involved),
//! its outcome is compared with what the model allows, then the entire contents
//! of every pool global are read back and compared, then identity audits run.
//!
//! A failing step gets the signature `<ID>|<op>|<input class>|<failure kind>`.
//! Listed known findings are tolerated here, step by step: after a tolerated
//! step whose wrong outcome cannot have changed the state (a pure, unstored
//! operation answering wrongly or with an error) the sequence goes on;
//! otherwise the rest of the sequence is not compared (model and SUT may have
//! diverged) and the sequence is counted as cut short.

use crate::ctx::{Ctx, Outcome};
use crate::sut::{cell_to_sx, guard, sx_to_cell};
use marwood::cell::Cell;
use marwood::vm::Vm;
use mwv_core::store::{Expect, Script, ScriptStep};
use mwv_core::sx::Sx;
use serde_json::{json, Value};

pub struct StepFailure {
    pub kind: &'static str,
    pub detail: String,
}

fn eval(vm: &mut Vm, form: &Sx) -> Result<Result<Cell, String>, String> {
    let cell = sx_to_cell(form);
    // errors are rendered with Debug: Display of the index errors computes `len - 1`
    guard(|| vm.eval(&cell).map_err(|e| format!("{:?}", e)))
}

fn show(r: &Result<Cell, String>) -> String {
    match r {
        Ok(c) => format!("{}", cell_to_sx(c)),
        Err(e) => format!("error {}", e),
    }
}

fn check_step(vm: &mut Vm, s: &ScriptStep) -> Option<StepFailure> {
    for p in s.pre.iter() {
        match eval(vm, p) {
            Ok(Ok(_)) => {}
            other => {
                return Some(StepFailure { kind: "harness-form-failed", detail: format!("{} => {:?}", p, other.map(|r| show(&r))) });
            }
        }
    }
    let r = match eval(vm, &s.form) {
        Err(p) => return Some(StepFailure { kind: "panic", detail: format!("{} panicked: {}", s.form, p) }),
        Ok(r) => r,
    };
    let matches_any = |vals: &Vec<Sx>, c: &Cell| {
        let got = cell_to_sx(c);
        vals.iter().any(|v| v.matches(&got))
    };
    let list = |vals: &Vec<Sx>| vals.iter().map(|v| v.to_string()).collect::<Vec<_>>().join(" or ");
    match (&s.expect, &r) {
        (Expect::Value(vals), Ok(c)) => {
            if !matches_any(vals, c) {
                return Some(StepFailure { kind: "wrong-result", detail: format!("{} => {}, expected {}", s.form, show(&r), list(vals)) });
            }
        }
        (Expect::Value(vals), Err(_)) => {
            return Some(StepFailure { kind: "spurious-error", detail: format!("{} => {}, expected {}", s.form, show(&r), list(vals)) });
        }
        (Expect::ValueOrError(vals), Ok(c)) => {
            if !matches_any(vals, c) {
                return Some(StepFailure { kind: "wrong-result", detail: format!("{} => {}, expected {} or an error", s.form, show(&r), list(vals)) });
            }
        }
        (Expect::ValueOrError(_), Err(_)) => {}
        (Expect::Error, Ok(_)) => {
            return Some(StepFailure { kind: "no-error", detail: format!("{} => {}, expected an error", s.form, show(&r)) });
        }
        (Expect::Error, Err(_)) => {}
        (Expect::AnyValue, Ok(_)) => {}
        (Expect::AnyValue, Err(_)) => {
            return Some(StepFailure { kind: "spurious-error", detail: format!("{} => {}, expected normal return", s.form, show(&r)) });
        }
        (Expect::AnyOutcome, _) => {}
        (Expect::SameAs(other), _) => {
            let r2 = match eval(vm, other) {
                Err(p) => return Some(StepFailure { kind: "panic", detail: format!("{} panicked: {}", other, p) }),
                Ok(r2) => r2,
            };
            let same = match (&r, &r2) {
                (Ok(a), Ok(b)) => cell_to_sx(a).matches(&cell_to_sx(b)) && cell_to_sx(b).matches(&cell_to_sx(a)),
                (Err(_), Err(_)) => true,
                _ => false,
            };
            if !same {
                return Some(StepFailure {
                    kind: "differs-from-folded",
                    detail: format!("{} => {} but {} => {}", s.form, show(&r), other, show(&r2)),
                });
            }
        }
    }
    if let (Some((form, want)), Ok(_)) = (&s.post, &r) {
        match eval(vm, form) {
            Ok(Ok(c)) if want.matches(&cell_to_sx(&c)) => {}
            other => {
                return Some(StepFailure {
                    kind: "post-relation-failed",
                    detail: format!("after {}: {} => {:?}, expected {}", s.form, form, other.map(|r| show(&r)), want),
                });
            }
        }
    }
    // the entire contents of every pool object
    for (name, want) in s.pool_after.iter() {
        match eval(vm, &Sx::sym(name)) {
            Ok(Ok(c)) if want.matches(&cell_to_sx(&c)) => {}
            Err(p) => return Some(StepFailure { kind: "panic", detail: format!("after {}: reading {} panicked: {}", s.form, name, p) }),
            Ok(other) => {
                let kind = if s.stored.as_deref() == Some(name.as_str()) {
                    "wrong-result"
                } else if s.mutator {
                    "wrong-content"
                } else {
                    "unexpected-mutation"
                };
                return Some(StepFailure { kind, detail: format!("after {}: {} = {}, expected {}", s.form, name, show(&other), want) });
            }
        }
    }
    for a in s.audits.iter() {
        match eval(vm, &a.form) {
            Ok(Ok(Cell::Bool(b))) if b == a.expect => {}
            Ok(Ok(Cell::Bool(_))) => {
                let kind = if a.expect { "identity-lost" } else { "identity-shared" };
                return Some(StepFailure { kind, detail: format!("after {}: {} does not hold (mutation probe {})", s.form, a.what, a.form) });
            }
            Err(p) => return Some(StepFailure { kind: "panic", detail: format!("after {}: probe {} panicked: {}", s.form, a.form, p) }),
            Ok(other) => {
                return Some(StepFailure {
                    kind: "identity-lost",
                    detail: format!("after {}: {}: mutation probe {} => {}", s.form, a.what, a.form, show(&other)),
                });
            }
        }
    }
    None
}

pub struct RunInfo {
    pub executed: usize,
    pub cut_short: bool,
    pub tolerated: usize,
}

/// Execute the script. `text` is the readable (and re-readable) form of the case.
/// `record`: count tolerated known findings in the statistics (off while a failing case is being minimised).
pub fn run_script(ctx: &Ctx, id: &str, kind: &str, script: &Script, text: &str, info: &mut RunInfo, record: bool) -> Outcome {
    let render = json!({ "script": text });
    let mut vm = match guard(Vm::new) {
        Ok(vm) => vm,
        Err(p) => return Outcome::fail(format!("{}|vm-new|panic", id), p, render),
    };
    for f in script.prelude.iter() {
        match eval(&mut vm, f) {
            Ok(Ok(_)) => {}
            other => {
                return Outcome::fail(
                    format!("{}|harness-prelude|failed", id),
                    format!("{} => {:?}", f, other.map(|r| show(&r))),
                    render,
                )
            }
        }
    }
    for s in script.steps.iter() {
        info.executed += 1;
        if let Some(f) = check_step(&mut vm, s) {
            let sig = format!("{}|{}|{}|{}", id, s.op, s.class, f.kind);
            if ctx.is_known(&sig) {
                if record && ctx.counting() && ctx.known.lookup(&ctx.prop, &sig).is_some() {
                    ctx.report(kind, json!({"script": text, "failing_form": s.form.to_string()}), &sig, &f.detail);
                }
                info.tolerated += 1;
                let state_safe = !s.diverges && matches!(f.kind, "wrong-result" | "spurious-error" | "no-error" | "differs-from-folded");
                if state_safe {
                    continue;
                }
                info.cut_short = true;
                return Outcome::Pass;
            }
            return Outcome::fail(sig, f.detail, render);
        }
    }
    Outcome::Pass
}

pub fn script_text_of(payload: &Value) -> Option<String> {
    payload["script"]
        .as_str()
        .or_else(|| payload["render"]["script"].as_str())
        .map(|s| s.to_string())
}

thread_local! {
    /// choice bytes of the failing case that is currently being reported
    static LAST_FAIL: std::cell::RefCell<Option<Vec<u8>>> = const { std::cell::RefCell::new(None) };
}

/// proptest's byte-level shrinking is not used for operation sequences: a
/// failing sequence is minimised structurally (step deletion) by the property
/// itself, at once. During proptest's shrink phase every candidate other than
/// the original bytes therefore passes without being executed.
pub fn skip_shrink_candidate(ctx: &Ctx, bytes: &[u8]) -> bool {
    if ctx.strict || ctx.counting() {
        return false;
    }
    LAST_FAIL.with(|l| l.borrow().as_deref() != Some(bytes))
}

pub fn remember_failure(bytes: &[u8]) {
    LAST_FAIL.with(|l| *l.borrow_mut() = Some(bytes.to_vec()));
}

/// Delete steps (last first, repeatedly) while `fails(steps)` keeps reporting `sig`.
pub fn minimise<S: Clone, F: Fn(&[S]) -> Option<String>>(steps: &[S], sig: &str, fails: F) -> Vec<S> {
    let mut cur: Vec<S> = steps.to_vec();
    let mut budget = 400;
    loop {
        let mut changed = false;
        let mut i = cur.len();
        while i > 0 && budget > 0 {
            i -= 1;
            let mut cand = cur.clone();
            cand.remove(i);
            budget -= 1;
            if fails(&cand).as_deref() == Some(sig) {
                cur = cand;
                changed = true;
            }
        }
        if !changed || budget == 0 {
            return cur;
        }
    }
}
