//! Running generated sessions on the SUT and on the reference interpreter,
//! and comparing them form by form. Shared by C01, C02, C03, C05, C07, C13.

use crate::sut::{cell_to_sx, guard, new_vm_with_capture, Capture};
use marwood::cell::Cell;
use marwood::parse;
use marwood::vm::verif::GcSchedule;
use marwood::vm::Vm;
use mwv_core::ri::{Outcome as RiOutcome, Ri, RiStats};
use mwv_core::sx::Sx;

#[derive(Clone, Debug)]
pub enum FormResult {
    Value(Sx),
    Failed(String),
    Panic(String),
    OverBudget,
    /// the harness could not even hand the form to the evaluator (reader error on generated text)
    Unreadable(String),
}

impl FormResult {
    pub fn short(&self) -> String {
        match self {
            FormResult::Value(v) => format!("value {}", v),
            FormResult::Failed(e) => format!("error \"{}\"", e),
            FormResult::Panic(p) => format!("PANIC {}", p),
            FormResult::OverBudget => "over budget".into(),
            FormResult::Unreadable(e) => format!("unreadable: {}", e),
        }
    }
}

#[derive(Clone, Debug)]
pub struct SutRun {
    pub results: Vec<FormResult>,
    pub outputs: Vec<Vec<(bool, Sx)>>,
    pub instructions: u64,
    pub collections: u64,
}

/// How one top-level form is pushed through the VM.
#[derive(Clone, Debug)]
pub enum EvalMode {
    /// `prepare_eval` + one `run_count(budget)` (what `eval` does, with a cap)
    Whole,
    /// `prepare_eval` + `run_count(b_i)` repeatedly with the given budgets (cycled)
    Sliced(Vec<usize>),
}

#[derive(Clone, Debug)]
pub struct RunOpts {
    pub pollute: bool,
    pub schedule: GcSchedule,
    pub mode: EvalMode,
    pub instr_budget: usize,
    /// force a collection after every top-level form (roots = globals only)
    pub gc_between_forms: bool,
}

impl Default for RunOpts {
    fn default() -> RunOpts {
        RunOpts {
            pollute: false,
            schedule: GcSchedule::Never,
            mode: EvalMode::Whole,
            instr_budget: 2_000_000,
            gc_between_forms: false,
        }
    }
}

pub const POLLUTION: &str = r#"
(define pol-a 41)
(define pol-b (list 1 2 3 'x "s"))
(define (pol-f x y . z) (if (null? z) (+ x y) (apply + x y z)))
(define (pol-g lst) (map (lambda (e) (* e e)) lst))
(define pol-counter (let ((n 0)) (lambda () (set! n (+ n 1)) n)))
(define-syntax pol-swap! (syntax-rules () ((_ a b) (let ((tmp a)) (set! a b) (set! b tmp)))))
(define-syntax pol-my-or (syntax-rules () ((_) #f) ((_ e) e) ((_ e r ...) (let ((t e)) (if t t (pol-my-or r ...))))))
(pol-f 1 2)
(pol-f 1 2 3 4)
(pol-g '(1 2 3))
(pol-counter)
(pol-counter)
(define pol-v (make-vector 5 'pol))
(vector-set! pol-v 2 (lambda (q) q))
(define pol-k #f)
(+ 1 (call/cc (lambda (k) (set! pol-k k) 1)))
(define (pol-loop i acc) (if (= i 0) acc (pol-loop (- i 1) (cons i acc))))
(pol-loop 50 '())
(define pol-s (string-append "abc" "def"))
(define pol-al '((a . 1) (b . 2) (c . 3)))
(assq 'b pol-al)
(let loop ((i 0)) (if (< i 20) (loop (+ i 1)) i))
(define pol-p (delay (+ 1 2)))
(force pol-p)
(pol-my-or #f #f 7)
(let ((pa 1) (pb 2)) (pol-swap! pa pb) (list pa pb))
(define (pol-h n) (cond ((= n 0) 'zero) ((< n 0) 'neg) (else 'pos)))
(pol-h 5)
(eval '(define pol-e 99))
`(1 ,pol-a #(2 ,pol-e))
(define pol-big (pol-loop 200 '()))
(case pol-a ((1 2 3) 'small) ((41) 'answer) (else 'other))
"#;

pub fn pollute(vm: &mut Vm) {
    let mut rest: Option<&str> = Some(POLLUTION);
    while let Some(t) = rest {
        if t.trim().is_empty() {
            break;
        }
        match vm.eval_text(t) {
            Ok((_, r)) => rest = r,
            Err(e) => panic!("pollution prelude failed: {}", e),
        }
    }
}

/// Evaluate one parsed form under the given mode; None = over budget.
pub fn eval_cell(vm: &mut Vm, cell: &Cell, opts: &RunOpts) -> Result<Option<Cell>, marwood::error::Error> {
    vm.prepare_eval(cell)?;
    match &opts.mode {
        EvalMode::Whole => vm.run_count(opts.instr_budget),
        EvalMode::Sliced(budgets) => {
            let mut used: usize = 0;
            let mut i = 0;
            loop {
                let b = budgets[i % budgets.len()].max(1);
                i += 1;
                match vm.run_count(b)? {
                    Some(c) => return Ok(Some(c)),
                    None => {
                        used += b;
                        if used > opts.instr_budget.saturating_mul(2) {
                            return Ok(None);
                        }
                    }
                }
            }
        }
    }
}

pub struct SutSession {
    pub vm: Vm,
    pub cap: Capture,
    pub opts: RunOpts,
}

impl SutSession {
    pub fn new(opts: RunOpts) -> SutSession {
        let (mut vm, cap) = new_vm_with_capture();
        if opts.pollute {
            pollute(&mut vm);
            cap.take();
        }
        vm.verif_set_gc_schedule(opts.schedule.clone());
        vm.verif_reset_counters();
        SutSession { vm, cap, opts }
    }

    pub fn eval_form(&mut self, form: &Sx) -> (FormResult, Vec<(bool, Sx)>) {
        let text = form.to_string();
        let opts = self.opts.clone();
        let vm = &mut self.vm;
        let r = guard(|| {
            let (cell, rest) = match parse::parse_text(&text) {
                Ok(x) => x,
                Err(e) => return FormResult::Unreadable(format!("{}", e)),
            };
            if rest.is_some() {
                return FormResult::Unreadable("generated form read as more than one datum".into());
            }
            match eval_cell(vm, &cell, &opts) {
                Ok(Some(c)) => FormResult::Value(cell_to_sx(&c)),
                Ok(None) => FormResult::OverBudget,
                Err(e) => FormResult::Failed(guard(|| e.to_string()).unwrap_or_else(|p| format!("<error display panicked: {}>", p))),
            }
        });
        let r = match r {
            Ok(r) => r,
            Err(p) => FormResult::Panic(p),
        };
        if self.opts.gc_between_forms && !matches!(r, FormResult::Panic(_) | FormResult::OverBudget) {
            let _ = guard(|| self.vm.verif_force_gc());
        }
        let out = self.cap.take().iter().map(|(w, c)| (*w, cell_to_sx(c))).collect();
        (r, out)
    }
}

pub fn run_sut(forms: &[Sx], opts: &RunOpts) -> SutRun {
    let mut s = SutSession::new(opts.clone());
    let mut results = vec![];
    let mut outputs = vec![];
    for f in forms {
        let (r, o) = s.eval_form(f);
        let stop = matches!(r, FormResult::Panic(_) | FormResult::OverBudget | FormResult::Unreadable(_));
        results.push(r);
        outputs.push(o);
        if stop {
            break;
        }
    }
    SutRun {
        results,
        outputs,
        instructions: s.vm.verif_instructions(),
        collections: s.vm.verif_collections(),
    }
}

pub struct RiRun {
    pub outcomes: Vec<RiOutcome>,
    pub outputs: Vec<Vec<(bool, Sx)>>,
    /// number of leading forms whose outcome is determined (Value or Fail)
    pub comparable: usize,
    pub stats: RiStats,
    pub cut: Option<String>,
}

pub fn run_ri(forms: &[Sx], budget: u64) -> RiRun {
    let mut ri = Ri::new();
    ri.budget = budget;
    let mut outcomes = vec![];
    let mut outputs = vec![];
    let mut comparable = 0;
    let mut cut = None;
    for f in forms {
        let o = ri.eval_top(f);
        let out = ri.take_output();
        match &o {
            RiOutcome::Value(_) | RiOutcome::Fail(_) => {
                comparable += 1;
                outcomes.push(o);
                outputs.push(out);
            }
            RiOutcome::Undetermined(s) => {
                cut = Some(format!("undetermined: {}", s));
                outcomes.push(o);
                outputs.push(out);
                break;
            }
            RiOutcome::Budget => {
                cut = Some("budget".into());
                outcomes.push(o);
                outputs.push(out);
                break;
            }
        }
    }
    RiRun { outcomes, outputs, comparable, stats: ri.stats.clone(), cut }
}

#[derive(Debug, Clone)]
pub struct Mismatch {
    pub form: usize,
    pub kind: &'static str,
    pub detail: String,
}

fn outputs_match(expected: &[(bool, Sx)], got: &[(bool, Sx)]) -> bool {
    expected.len() == got.len()
        && expected
            .iter()
            .zip(got.iter())
            .all(|((we, e), (wg, g))| we == wg && e.matches(g))
}

fn fmt_out(o: &[(bool, Sx)]) -> String {
    o.iter()
        .map(|(w, s)| format!("{}:{}", if *w { "write" } else { "display" }, s))
        .collect::<Vec<_>>()
        .join(" ")
}

/// Compare a SUT run against the reference, form by form, over the comparable prefix.
/// Returns the first mismatch; `Ok(n)` = number of forms compared.
pub fn compare(ri: &RiRun, sut: &SutRun) -> Result<usize, Mismatch> {
    for i in 0..ri.comparable {
        let got = match sut.results.get(i) {
            Some(g) => g,
            None => return Ok(i),
        };
        match got {
            FormResult::OverBudget => return Ok(i),
            FormResult::Unreadable(e) => {
                return Err(Mismatch { form: i, kind: "unreadable", detail: e.clone() })
            }
            FormResult::Panic(p) => {
                return Err(Mismatch { form: i, kind: "panic", detail: p.clone() })
            }
            _ => {}
        }
        match (&ri.outcomes[i], got) {
            (RiOutcome::Value(e), FormResult::Value(g)) => {
                if !e.matches(g) {
                    return Err(Mismatch { form: i, kind: "value", detail: format!("expected {} got {}", e, g) });
                }
            }
            (RiOutcome::Value(e), FormResult::Failed(err)) => {
                return Err(Mismatch { form: i, kind: "sut-failed", detail: format!("expected {} got error \"{}\"", e, err) });
            }
            (RiOutcome::Fail(k), FormResult::Value(g)) => {
                return Err(Mismatch { form: i, kind: "sut-succeeded", detail: format!("expected failure ({}) got {}", k, g) });
            }
            (RiOutcome::Fail(_), FormResult::Failed(_)) => {}
            _ => {}
        }
        let eo = &ri.outputs[i];
        let go = &sut.outputs[i];
        if !outputs_match(eo, go) {
            return Err(Mismatch {
                form: i,
                kind: "output",
                detail: format!("expected output [{}] got [{}]", fmt_out(eo), fmt_out(go)),
            });
        }
    }
    Ok(ri.comparable)
}

/// Compare two SUT runs of the same session (differential / metamorphic).
pub fn compare_runs(base: &SutRun, other: &SutRun) -> Result<usize, Mismatch> {
    let n = base.results.len().min(other.results.len());
    for i in 0..n {
        let (a, b) = (&base.results[i], &other.results[i]);
        match (a, b) {
            (FormResult::OverBudget, _) | (_, FormResult::OverBudget) => return Ok(i),
            (FormResult::Value(x), FormResult::Value(y)) => {
                if !x.matches(y) || !y.matches(x) {
                    return Err(Mismatch { form: i, kind: "value", detail: format!("{} vs {}", x, y) });
                }
            }
            (FormResult::Failed(_), FormResult::Failed(_)) => {}
            (FormResult::Panic(_), FormResult::Panic(_)) => {}
            (x, y) => {
                let kind = if matches!(y, FormResult::Panic(_)) { "panic" } else { "outcome" };
                return Err(Mismatch { form: i, kind, detail: format!("{} vs {}", x.short(), y.short()) });
            }
        }
        if !outputs_match(&base.outputs[i], &other.outputs[i]) {
            return Err(Mismatch {
                form: i,
                kind: "output",
                detail: format!("[{}] vs [{}]", fmt_out(&base.outputs[i]), fmt_out(&other.outputs[i])),
            });
        }
    }
    Ok(n)
}

pub fn render_session(forms: &[Sx]) -> String {
    forms.iter().map(|f| f.to_string()).collect::<Vec<_>>().join("\n")
}
