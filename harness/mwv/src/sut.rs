//! Helpers around the system under test: panic capture, output capture,
//! conversions between marwood's `Cell` and the harness' own datum type.

use marwood::cell::Cell;
use marwood::number::Number;
use marwood::vm::{SystemInterface, Vm};
use mwv_core::sx::Sx;
use num::bigint::BigInt;
use num::{BigRational, ToPrimitive};
use std::cell::RefCell;
use std::panic::{catch_unwind, AssertUnwindSafe};
use std::rc::Rc;

thread_local! {
    static LAST_PANIC: RefCell<Option<String>> = const { RefCell::new(None) };
    static GUARD_DEPTH: std::cell::Cell<u32> = const { std::cell::Cell::new(0) };
}

/// Install a silent panic hook that remembers message and location.
pub fn install_panic_hook() {
    std::panic::set_hook(Box::new(|info| {
        let msg = if let Some(s) = info.payload().downcast_ref::<&str>() {
            s.to_string()
        } else if let Some(s) = info.payload().downcast_ref::<String>() {
            s.clone()
        } else {
            "<non-string panic>".to_string()
        };
        let loc = info
            .location()
            .map(|l| format!("{}:{}", l.file(), l.line()))
            .unwrap_or_default();
        if GUARD_DEPTH.with(|d| d.get()) == 0 || std::env::var_os("VERIF_DEBUG_PANIC").is_some() {
            // a panic of the harness itself: make it visible
            eprintln!("harness panic: {} @ {}", msg, loc);
        }
        LAST_PANIC.with(|p| *p.borrow_mut() = Some(format!("{} @ {}", msg, loc)));
    }));
}

/// Run `f`, turning a panic into `Err(message @ location)`.
pub fn guard<T, F: FnOnce() -> T>(f: F) -> Result<T, String> {
    GUARD_DEPTH.with(|d| d.set(d.get() + 1));
    let r = catch_unwind(AssertUnwindSafe(f));
    GUARD_DEPTH.with(|d| d.set(d.get() - 1));
    match r {
        Ok(v) => Ok(v),
        Err(_) => Err(LAST_PANIC
            .with(|p| p.borrow_mut().take())
            .unwrap_or_else(|| "<panic>".to_string())),
    }
}

/// Captures display/write calls in order.
#[derive(Debug, Clone)]
pub struct Capture {
    pub log: Rc<RefCell<Vec<(bool, Cell)>>>,
}

impl Capture {
    pub fn new() -> Capture {
        Capture {
            log: Rc::new(RefCell::new(vec![])),
        }
    }
    pub fn take(&self) -> Vec<(bool, Cell)> {
        std::mem::take(&mut *self.log.borrow_mut())
    }
}

impl SystemInterface for Capture {
    fn display(&self, cell: &Cell) {
        self.log.borrow_mut().push((false, cell.clone()));
    }
    fn write(&self, cell: &Cell) {
        self.log.borrow_mut().push((true, cell.clone()));
    }
    fn terminal_dimensions(&self) -> (usize, usize) {
        (80, 24)
    }
    fn time_utc(&self) -> u64 {
        0
    }
}

pub fn new_vm_with_capture() -> (Vm, Capture) {
    let mut vm = Vm::new();
    let cap = Capture::new();
    vm.set_system_interface(Box::new(cap.clone()));
    (vm, cap)
}

/// marwood number -> exact rational or float, for strict comparison.
#[derive(Clone, Debug, PartialEq)]
pub enum NumV {
    Exact(BigRational),
    Inexact(f64),
}

pub fn number_value(n: &Number) -> NumV {
    match n {
        Number::Fixnum(i) => NumV::Exact(BigRational::from_integer(BigInt::from(*i))),
        Number::BigInt(b) => NumV::Exact(BigRational::from_integer((**b).clone())),
        Number::Rational(r) => NumV::Exact(BigRational::new(
            BigInt::from(*r.numer()),
            BigInt::from(*r.denom()),
        )),
        Number::Float(f) => NumV::Inexact(*f),
    }
}

/// Structural conversion of a result `Cell` into the harness' datum type.
/// Exact integers of every representation become `Sx::Int`; other exact
/// rationals `Sx::Rat`; floats `Sx::Real`. Opaque values become tagged
/// symbols so that they never compare equal to data by accident.
pub fn cell_to_sx(c: &Cell) -> Sx {
    match c {
        Cell::Bool(b) => Sx::Bool(*b),
        Cell::Char(c) => Sx::Char(*c),
        Cell::Nil => Sx::List(vec![]),
        Cell::Number(n) => match number_value(n) {
            NumV::Exact(r) => {
                if r.is_integer() {
                    Sx::Int(r.to_integer())
                } else {
                    Sx::Rat(r)
                }
            }
            NumV::Inexact(f) => Sx::Real(f),
        },
        Cell::String(s) => Sx::Str(s.clone()),
        Cell::Symbol(s) => Sx::Sym(s.clone()),
        Cell::Vector(v) => Sx::Vector(v.iter().map(cell_to_sx).collect()),
        Cell::Pair(_, _) => {
            let mut items = vec![];
            let mut cur = c;
            loop {
                match cur {
                    Cell::Pair(a, d) => {
                        items.push(cell_to_sx(a));
                        cur = d;
                    }
                    Cell::Nil => return Sx::List(items),
                    other => return Sx::Dotted(items, Box::new(cell_to_sx(other))),
                }
            }
        }
        Cell::Continuation => Sx::Opaque("continuation".into()),
        Cell::Macro => Sx::Opaque("macro".into()),
        Cell::Procedure(_) => Sx::Opaque("procedure".into()),
        Cell::Undefined => Sx::Opaque("undefined".into()),
        Cell::Void => Sx::Opaque("void".into()),
    }
}

/// Harness datum -> marwood `Cell` (for injecting data without the reader).
pub fn sx_to_cell(s: &Sx) -> Cell {
    match s {
        Sx::Bool(b) => Cell::Bool(*b),
        Sx::Char(c) => Cell::Char(*c),
        Sx::Int(i) => match i.to_i64() {
            Some(v) => Cell::Number(Number::Fixnum(v)),
            None => Cell::Number(Number::BigInt(Rc::new(i.clone()))),
        },
        Sx::Rat(r) => {
            let n = r.numer().to_i32();
            let d = r.denom().to_i32();
            match (n, d) {
                (Some(n), Some(d)) => {
                    Cell::Number(Number::Rational(num::rational::Rational32::new(n, d)))
                }
                _ => Cell::Number(Number::Float(r.to_f64().unwrap_or(f64::NAN))),
            }
        }
        Sx::Real(f) => Cell::Number(Number::Float(*f)),
        Sx::Str(s) => Cell::String(s.clone()),
        Sx::Sym(s) => Cell::Symbol(s.clone()),
        Sx::List(v) => Cell::new_list(v.iter().map(sx_to_cell).collect::<Vec<_>>()),
        Sx::Dotted(v, t) => {
            Cell::new_improper_list(v.iter().map(sx_to_cell).collect::<Vec<_>>(), sx_to_cell(t))
        }
        Sx::Vector(v) => Cell::Vector(v.iter().map(sx_to_cell).collect()),
        Sx::Opaque(_) => Cell::Void,
    }
}
