#!/usr/bin/env python3
"""Writes the C17 known-finding reproducers (replays/known/C17-*.json). Run from anywhere."""
import json, os
ROOT = os.path.dirname(os.path.dirname(os.path.abspath(__file__)))
D = lambda rules, lits="()": "(define-syntax k (syntax-rules %s %s))" % (lits, rules)
N = "C17|nonterm|"
CASES = [
 # name, sig, definition, use, hang_sig
 ("template-dotted-tail", "C17|template:dotted-tail", D("((_ a b) '(a . b))"), "(k 1 2)", None),
 ("template-vector", "C17|template:vector", D("((_ a b) '#(a b))"), "(k 1 2)", None),
 ("template-var-twice", "C17|template:var-twice-under-one-ellipsis", D("((_ a ...) '((a a) ...))"), "(k 1 2 3)", None),
 ("template-nested-ellipsis", "C17|template:nested-ellipsis", D("((_ (x a ...) ...) '((x a ...) ...))"), "(k (1 2 3) (4 5))", None),
 ("template-reuse-after-zip", "C17|template:ellipsis-variable-reused-after-zip", D("((_ (a b) ...) '(((a b) ...) (b ...)))"), "(k (1 2) (3 4))", None),
 ("pattern-dotted-tail-skipped", "C17|pattern:dotted-tail", D("((_ a . r) 'first) ((_ a b) 'second)"), "(k 1 2)", None),
 ("pattern-dotted-tail-binding", "C17|pattern:dotted-tail", D("((_ . r) 'r)"), "(k 1)", None),
 ("pattern-dotted-tail-accepts", "C17|nomatch-accepted|pattern:dot-after-keyword", D("((_ . else) 'matched)", "(else)"), "(k else)", None),
 ("pattern-dot-after-keyword-earlier-rule", "C17|earlier-rule-accepted|pattern:dot-after-keyword", D("((_ . else) 'first) ((_ a) 'second)", "(else)"), "(k else)", None),
 ("pattern-vector", "C17|pattern:vector", D("((_ #(a)) 'first) ((_ b) 'second)"), "(k #(1))", None),
 ("pattern-ellipsis-zero-items-before-tail", "C17|pattern:ellipsis-before-fixed-tail|zero-items", D("((_ a ... b) 'first) ((_ c) 'second)"), "(k 1)", None),
 ("nonterm-nested-ellipsis", N+"template:ellipsis-after-nested-ellipsis-only|abort", D("((_ (a ...) ...) '((a ...) ...))"), "(k (1 2) (3))", N+"template:ellipsis-after-nested-ellipsis-only"),
 ("nonterm-depth0-variable", N+"template:ellipsis-after-depth0-variable|abort", D("((_ x) '(x ...))"), "(k 1)", N+"template:ellipsis-after-depth0-variable"),
 ("nonterm-datum", N+"template:ellipsis-after-datum|abort", D("((_ a) '(1 ...))"), "(k 1)", N+"template:ellipsis-after-datum"),
 ("nonterm-list-without-ellipsis-variable", N+"template:ellipsis-after-list-without-ellipsis-variable|abort", D("((_ a) '((a) ...))"), "(k 1)", N+"template:ellipsis-after-list-without-ellipsis-variable"),
 ("nonterm-variable-also-nested", N+"template:ellipsis-after-variable-also-under-nested-ellipsis|abort", D("((_ a ...) '((a ... a) ...))"), "(k 1)", N+"template:ellipsis-after-variable-also-under-nested-ellipsis"),
 ("nonterm-vector", N+"template:ellipsis-after-vector|abort", D("((_ a ...) '(#(a) ...))"), "(k 1 2)", N+"template:ellipsis-after-vector"),
 ("nonterm-vector-pattern-variables", N+"template:ellipsis-driven-by-vector-pattern-variables|abort", D("((_ (#(a)) ...) '((a) ...))"), "(k)", N+"template:ellipsis-driven-by-vector-pattern-variables"),
]
for name, sig, d, u, h in CASES:
    payload = {"definition": d, "use": u}
    if h:
        payload["hang_sig"] = h
    rec = {"property": "C17", "kind": "text", "payload": payload, "sig": sig, "tier": "quick", "seed": 0}
    with open(os.path.join(ROOT, "replays", "known", "C17-%s.json" % name), "w") as f:
        json.dump(rec, f, indent=1)
        f.write("\n")
print(len(CASES), "files")
