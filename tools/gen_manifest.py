#!/usr/bin/env python3
"""Regenerates /verif/MANIFEST.json from the table below (kept next to the code so the two stay in step)."""
import json, os
ROOT = os.path.dirname(os.path.dirname(os.path.abspath(__file__)))

CHECKS = {
 # id: (technique, level text, level note, design ref)
 "C08": ("boundary-value grid + proptest-driven palette operands in every internal representation against exact BigRational arithmetic (reference model), plus a metamorphic relation (same mathematical operands, different representation => same answer)",
         "Every pair of ~100 boundary values (0, +-1, +-2, within 2 of +-2^31/2^32/2^53/2^63/2^64, edge rationals) under + - * / quotient remainder modulo, every boundary value under abs floor ceiling truncate numerator denominator and under expt with 10 exponents, each in every combination of representations (fixnum, bignum also for small values, n/1, n/d), plus 16 x 25k (quick) / 16 x 400k (thorough) random palette cases (random 32..256-bit integers, reduced rationals, results landing on a boundary, + and * on 2..5 operands). Exploration: holds on everything generated except the listed known findings, nothing beyond.",
         "Trusts num's BigInt/BigRational. 'Representable' is marwood's documented exact model (any integer; n/d with 32-bit parts). Only the checked build (overflow panics) is exercised; panics and wrong exact values are one failure kind. The 41 known-finding classes are tolerated by input class, so another defect inside such a class with the same failure kind would be masked.",
         "DESIGN.md section 4, C08"),
 "C09": ("boundary-value grid + proptest-driven pairs/triples/lists in every internal representation against exact comparison in BigRational with exactly converted doubles (reference model); self-consistency relations for transitivity and variadic forms",
         "Every unordered pair of ~110 boundary exact values, each against its five neighbouring doubles and 16 special doubles (+-0.0, subnormals, +-2^53, +-2^63, +-max, +-inf), in every representation combination, under < = > <= >= (both argument orders), min, max; plus 16 x 40k (quick) / 16 x 600k (thorough) random pairs, triples (transitivity, variadic, min/max), lists of 2..6 (variadic = conjunction over adjacent pairs) and sign predicates. Exploration.",
         "Trusts num's BigRational and the harness' bit-level double conversion. NaN excluded. Seven known-finding classes (by operand-pair class, all operators of a family) are tolerated; a violated transitivity in a triple with a tolerated pairwise failure is counted, not reported.",
         "DESIGN.md section 4, C09"),
 "C16": ("round trip (print then read) and differential (literal in program text vs string->number) over the numeric palettes and random numbers, compared by the harness' strict numeric equality",
         "All boundary exact values in every representation at radix 2, 8, 10, 16, their neighbouring doubles and special doubles at radix 10, plus 16 x 100k (quick) / 16 x 2M (thorough) random fixnums, bignums up to 512 bits, rationals of both signs and finite doubles (by bit pattern and around the 1e10 notation switch); every printed spelling is also evaluated as a literal (#b/#o/#d/#x prefix, bare at radix 10). Exploration.",
         "Equality is the harness' (same exactness, same value; +-0.0 identified), not the SUT's. Two known-finding classes (negative fixnums / negative rationals at radix 2, 8, 16) are tolerated.",
         "DESIGN.md section 4, C16"),
 "C20": ("exhaustive enumeration over a lexeme alphabet + proptest-driven Unicode token soup against a reference bracket matcher",
         "Every string of <=5 (quick) / <=7 (thorough) lexemes over the 11-lexeme alphabet with every cursor position is checked against the harness' own tokenizer and partner search (finite space enumerated completely), plus random Unicode token soup with random cursors. Exploration: holds on everything enumerated/generated, nothing beyond.",
         "Trusts the harness' reference tokenizer/partner search; random texts use the SUT scanner for token spans (checked by C11).",
         "DESIGN.md section 4, C20"),
}

NOT_YET = {}
ALL = ["C%02d" % i for i in range(1, 21)]

def main():
    checks = []
    for pid in ALL:
        if pid in CHECKS:
            tech, text, note, ref = CHECKS[pid]
            checks.append({
                "property_id": pid,
                "quick_cmd": "./check %s quick" % pid,
                "thorough_cmd": "./check %s thorough" % pid,
                "evidence_file": "/verif/evidence/%s.json" % pid,
                "replay_cmd_template": "./check --replay {path}",
                "engine": "mwv",
                "level_claimed": {"category": "exploration", "text": text, "design_ref": ref},
                "level_note": note,
                "technique": tech,
            })
    na = [{"property_id": p, "reason": NOT_YET.get(p, "check not built yet in this round (planned, see DESIGN.md section 4); not a statement that the technique cannot apply")}
          for p in ALL if p not in CHECKS]
    m = {
        "version": 1,
        "setup_cmd": "./check --build",
        "hooks": {
            "guard": "cargo feature `verif` of crate marwood",
            "enable": "harness/mwv/Cargo.toml depends on marwood = { path = \"../../sut\", features = [\"verif\"] } where /verif/sut is a symlink to /repo/marwood (re-pointed by ./check; VERIF_REPO=<dir> selects a scratch copy for sensitivity experiments)",
            "baseline_off_cmd": "cd /repo && cargo test --workspace --no-fail-fast --offline",
            "source_commits": ["bb1ef1b"],
            "add_only": True,
        },
        "engines": [{
            "name": "mwv",
            "path": "/verif/harness",
            "serves_properties": sorted(CHECKS.keys()),
            "kind_free_text": "Rust harness: proptest-driven choice-sequence generators, exhaustive enumerators and grids, reference models (mwv-core), driver/worker processes with watchdog, replay and known-finding matching",
        }],
        "checks": checks,
        "not_applicable": na,
        "notes": "All checks: ./check <ID> <quick|thorough>; replay: ./check --replay <file>. Known findings: /verif/KNOWN_FINDINGS.txt with reproducers in /verif/replays/known (and /verif/replays/fixed for repaired defects).",
    }
    with open(os.path.join(ROOT, "MANIFEST.json"), "w") as f:
        json.dump(m, f, indent=1)
        f.write("\n")

if __name__ == "__main__":
    main()
