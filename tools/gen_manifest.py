#!/usr/bin/env python3
"""Regenerates /verif/MANIFEST.json from the table below (kept next to the code so the two stay in step)."""
import json, os
ROOT = os.path.dirname(os.path.dirname(os.path.abspath(__file__)))

CHECKS = {
 # id: (technique, level text, level note, design ref)
 "C10": ("proptest-driven recursive datum generator (choice sequences, shrinking) with a round-trip oracle: write -> read -> write, and quote through the VM heap both as a cell and as text; strict structural comparison in the harness",
         "Every generated datum (booleans; finite doubles by bit pattern, boundary list, decimal strings and around the printer's 1e10 switch; integers across +-2^63 as fixnum and bignum cells; reduced rationals within i32; characters and strings of every Unicode class; symbols from the lexer's identifier grammar that the reader itself produces; lists, improper lists, vectors, quote forms and degenerate quote spellings to depth 6) is written, read back, rewritten and evaluated under quote. Exploration: the round trip holds on everything generated, nothing beyond.",
         "The symbol domain is defined by the reader itself (parse_text(s) = Symbol(s), nothing remaining), as the statement says; exact integers of any representation count as one value; comparison is by the harness' own strict equality, not the SUT's PartialEq.",
         "DESIGN.md section 4, C10"),
 "C11": ("proptest-driven text generators (random Unicode, token soup, character/token/subtree mutations of corpus programs and datum texts, well-formed datum sequences by construction) against span invariants, a reference gap scanner, a reference token-class parser for datum extents, and exhaustive token-boundary prefix cuts",
         "Every generated text is scanned and parsed datum by datum: no panic, spans non-empty/in bounds/on char boundaries/ordered, gaps only whitespace and comments, remaining text exactly at the first token after the datum (reference extent), loop visits each datum once. Every token-boundary prefix of every generated well-formed datum (with and without a whitespace/comment trailer) must be Incomplete and the complete datum must not. Exploration: holds on everything generated (one recorded known finding), nothing beyond.",
         "Which texts are errors is not asserted. Datum extents come from the harness' parser over the scanner's token types; for well-formed texts cut points and expected remaining offsets are the generator's own. A hang would be attributed by an in-worker watchdog and counts as a violation.",
         "DESIGN.md section 4, C11"),
 "C20": ("exhaustive enumeration over a lexeme alphabet + proptest-driven Unicode token soup against a reference bracket matcher",
         "Every string of <=5 (quick) / <=7 (thorough) lexemes over the 11-lexeme alphabet with every cursor position is checked against the harness' own tokenizer and partner search (finite space enumerated completely), plus random Unicode token soup with random cursors. Exploration: holds on everything enumerated/generated, nothing beyond.",
         "Trusts the harness' reference tokenizer/partner search; random texts use the SUT scanner for token spans (checked by C11).",
         "DESIGN.md section 4, C20"),
}

NOT_YET = {}
ALL = ["C%02d" % i for i in range(1, 21)]

def main():
    checks = []
    for pid in ALL:
        if pid in CHECKS:
            tech, text, note, ref = CHECKS[pid]
            checks.append({
                "property_id": pid,
                "quick_cmd": "./check %s quick" % pid,
                "thorough_cmd": "./check %s thorough" % pid,
                "evidence_file": "/verif/evidence/%s.json" % pid,
                "replay_cmd_template": "./check --replay {path}",
                "engine": "mwv",
                "level_claimed": {"category": "exploration", "text": text, "design_ref": ref},
                "level_note": note,
                "technique": tech,
            })
    na = [{"property_id": p, "reason": NOT_YET.get(p, "check not built yet in this round (planned, see DESIGN.md section 4); not a statement that the technique cannot apply")}
          for p in ALL if p not in CHECKS]
    m = {
        "version": 1,
        "setup_cmd": "./check --build",
        "hooks": {
            "guard": "cargo feature `verif` of crate marwood",
            "enable": "harness/mwv/Cargo.toml depends on marwood = { path = \"../../sut\", features = [\"verif\"] } where /verif/sut is a symlink to /repo/marwood (re-pointed by ./check; VERIF_REPO=<dir> selects a scratch copy for sensitivity experiments)",
            "baseline_off_cmd": "cd /repo && cargo test --workspace --no-fail-fast --offline",
            "source_commits": ["bb1ef1b"],
            "add_only": True,
        },
        "engines": [{
            "name": "mwv",
            "path": "/verif/harness",
            "serves_properties": sorted(CHECKS.keys()),
            "kind_free_text": "Rust harness: proptest-driven choice-sequence generators, exhaustive enumerators and grids, reference models (mwv-core), driver/worker processes with watchdog, replay and known-finding matching",
        }],
        "checks": checks,
        "not_applicable": na,
        "notes": "All checks: ./check <ID> <quick|thorough>; replay: ./check --replay <file>. Known findings: /verif/KNOWN_FINDINGS.txt with reproducers in /verif/replays/known (and /verif/replays/fixed for repaired defects).",
    }
    with open(os.path.join(ROOT, "MANIFEST.json"), "w") as f:
        json.dump(m, f, indent=1)
        f.write("\n")

if __name__ == "__main__":
    main()
