#!/usr/bin/env python3
"""Regenerates /verif/MANIFEST.json from the table below (kept next to the code so the two stay in step)."""
import json, os
ROOT = os.path.dirname(os.path.dirname(os.path.abspath(__file__)))

CHECKS = {
 # id: (technique, level text, level note, design ref)
 "C14": ("proptest-driven operation sequences (choice-byte decoder) against a reference store model with object identity; full content read-back of every pool object and mutation-probe identity audits after every operation; structural (step-deletion) minimisation",
         "Operation sequences (2..8 object definitions, then <= 12 operations) over a pool of <= 8 lists (proper, improper, shared tails), vectors (empty, nested) and scalars; every procedure of the statement, indices from -1..len+1 and far beyond. After each operation the result (value / must-error / unspecified), the entire contents of all pool objects and the identity of every shared object are compared with the model. Exploration: 32k sequences (quick) / 960k (thorough); holds on everything generated except the listed known findings, nothing beyond.",
         "Trusts the harness' store model (mwv-core/src/store.rs, written from R7RS 6.4/6.8/6.1). Known-finding triggers are generated at a 1-in-8 probe rate and a sequence is not compared further after a tolerated state-changing step (counted in evidence: seq:cut-short-after-known-finding). vector-copy's end argument, wrong-type container arguments and cyclic data are outside the domain.",
         "DESIGN.md section 4, C14"),
 "C15": ("proptest-driven operation sequences against a Vec<char> string store model with identity; metamorphic relation for case-insensitive predicates (SUT's own fold); Rust std Unicode tables for case conversion and character predicates",
         "Operation sequences (2..5 string definitions, some aliased, then <= 10 operations) over strings mixing 1-, 2-, 3-, 4-byte characters and the empty string; start/end/index from -1..len+1 and far beyond, fill/set characters of every width, integer->char across the surrogate range, above 0x10FFFF, negative and huge. After each operation the result and every pool string are compared with the model; invalid indices/ranges/scalar values must be reported as errors. Exploration: 64k sequences (quick) / 1.9M (thorough); holds on everything generated except the listed known findings, nothing beyond.",
         "Trusted base: Rust std Unicode tables (stated in the evidence); characters whose case mapping or folding std cannot decide one-to-one are not checked for that operation. Known-finding triggers are generated at a 1-in-8 probe rate. string-fill! with start = length keeps its end argument small (the SUT would allocate end-start bytes there: see the known finding).",
         "DESIGN.md section 4, C15"),
 "C20": ("exhaustive enumeration over a lexeme alphabet + proptest-driven Unicode token soup against a reference bracket matcher",
         "Every string of <=5 (quick) / <=7 (thorough) lexemes over the 11-lexeme alphabet with every cursor position is checked against the harness' own tokenizer and partner search (finite space enumerated completely), plus random Unicode token soup with random cursors. Exploration: holds on everything enumerated/generated, nothing beyond.",
         "Trusts the harness' reference tokenizer/partner search; random texts use the SUT scanner for token spans (checked by C11).",
         "DESIGN.md section 4, C20"),
}

NOT_YET = {}
ALL = ["C%02d" % i for i in range(1, 21)]

def main():
    checks = []
    for pid in ALL:
        if pid in CHECKS:
            tech, text, note, ref = CHECKS[pid]
            checks.append({
                "property_id": pid,
                "quick_cmd": "./check %s quick" % pid,
                "thorough_cmd": "./check %s thorough" % pid,
                "evidence_file": "/verif/evidence/%s.json" % pid,
                "replay_cmd_template": "./check --replay {path}",
                "engine": "mwv",
                "level_claimed": {"category": "exploration", "text": text, "design_ref": ref},
                "level_note": note,
                "technique": tech,
            })
    na = [{"property_id": p, "reason": NOT_YET.get(p, "check not built yet in this round (planned, see DESIGN.md section 4); not a statement that the technique cannot apply")}
          for p in ALL if p not in CHECKS]
    m = {
        "version": 1,
        "setup_cmd": "./check --build",
        "hooks": {
            "guard": "cargo feature `verif` of crate marwood",
            "enable": "harness/mwv/Cargo.toml depends on marwood = { path = \"../../sut\", features = [\"verif\"] } where /verif/sut is a symlink to /repo/marwood (re-pointed by ./check; VERIF_REPO=<dir> selects a scratch copy for sensitivity experiments)",
            "baseline_off_cmd": "cd /repo && cargo test --workspace --no-fail-fast --offline",
            "source_commits": ["bb1ef1b"],
            "add_only": True,
        },
        "engines": [{
            "name": "mwv",
            "path": "/verif/harness",
            "serves_properties": sorted(CHECKS.keys()),
            "kind_free_text": "Rust harness: proptest-driven choice-sequence generators, exhaustive enumerators and grids, reference models (mwv-core), driver/worker processes with watchdog, replay and known-finding matching",
        }],
        "checks": checks,
        "not_applicable": na,
        "notes": "All checks: ./check <ID> <quick|thorough>; replay: ./check --replay <file>. Known findings: /verif/KNOWN_FINDINGS.txt with reproducers in /verif/replays/known (and /verif/replays/fixed for repaired defects).",
    }
    with open(os.path.join(ROOT, "MANIFEST.json"), "w") as f:
        json.dump(m, f, indent=1)
        f.write("\n")

if __name__ == "__main__":
    main()
