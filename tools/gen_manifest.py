#!/usr/bin/env python3
"""Regenerates /verif/MANIFEST.json from the table below (kept next to the code so the two stay in step)."""
import json, os
ROOT = os.path.dirname(os.path.dirname(os.path.abspath(__file__)))

CHECKS = {
 # id: (technique, level text, level note, design ref)
 "C17": ("differential against a reference syntax-rules matcher/instantiator (R7RS 4.3.2, non-hygienic) over proptest-driven choice-sequence generators of valid transformers + uses and of structurally edited (mostly invalid) definitions; forked execution with address-space limit and alarm for termination",
         "Generated transformers (1-3 rules, patterns nested to depth 3 with literals, _, default/custom ellipsis, ellipsis depth 0-2, fixed tails, dotted tails, vector patterns; templates reusing, dropping, duplicating and nesting variables) are defined in a Vm with every template quoted, a matching or edited use is evaluated, and the outcome is compared with the reference: an error is always accepted, a value must be the reference expansion of the first matching rule up to a consistent renaming of the reserved template symbols, and a use no rule matches must fail. Edited definitions are checked for termination and absence of panic (full oracle where still valid). Exploration: holds on the 88 k (quick) / 1.9 M (thorough) generated cases except for the listed known findings; the shapes on which expansion is known not to terminate are recognised and their uses not run in the search tier.",
         "Trusts the harness' reference expander (unit-tested against R7RS examples in mwv-core). Unequal ellipsis lengths under one template ellipsis are excluded as the statement says. Input goes to Vm::eval as data, not through the reader.",
         "DESIGN.md section 4, C17"),
 "C01": ("differential against a reference interpreter over proptest-driven typed program generation (choice sequences), plus metamorphic re-runs in a second fresh VM and in a polluted VM",
         "Sessions of 1-8 top-level forms from a typed, scope-aware generator covering every core and derived form of the statement in combination are evaluated by an independent reference interpreter (CEK machine written from R7RS, hygienic desugaring) and by three VM instances; values, failures and output order are compared form by form with a strict structural equality. A second generator produces activation histories: instances of a maker procedure (formals (), (a), (a . r), r; state in internal definitions / let / parameters) are created and operated on in a random interleaving, and a recursive procedure reads its own internal definition after the recursive call returned. Exploration: 25k sessions quick / 400k thorough, shrunk to a minimal program on failure.",
         "Trusts the reference interpreter (unit-tested, shares no code with the SUT); only left-to-right operand order is assumed; failure messages are not compared; programs never rebind standard names; known deviations are matched by syntactic signature and generated at probe rate only.",
         "DESIGN.md section 4, C01"),
 "C02": ("exhaustive enumeration of scope skeletons (odometer over the decoder's decision tree) + proptest-driven random skeletons beyond the bound, differential against the reference interpreter's environment model",
         "Every scope skeleton up to the bound (quick: <=3 nested procedures x 2 names x 3 binding modes x 4 read/write/call placement patterns = 47,988 programs; thorough: 3 names x 4 modes) is run on the VM and on the reference interpreter and the complete probe log is compared; random skeletons with 4 levels, 3 names and 5 modes (incl. rest parameters and let) are sampled beyond it, plus 8 fixed families (closures created in loops, getter/setter pairs, shared counters).",
         "The reference interpreter's environment model defines the property. One VM is reused for up to 100 skeletons; mismatches are confirmed in a fresh VM.",
         "DESIGN.md section 4, C02"),
 "C03": ("differential (run with forced collections vs run without) + heap invariants from an independent reachability traversal, over proptest-driven programs x generated collection schedules; collections forced through the real run_gc by a hook",
         "Generated sessions (call/cc on), scope skeletons and 10 allocation-heavy templates are run under a collection at every instruction, every k-th instruction (k in 2..16), pseudo-random boundaries (p=1/3, 1/50) and after every top-level form; results/output must equal the run without forced collections and the reference interpreter, and at every observed collection the harness' own reachability set is checked against the heap after the sweep (no reachable cell freed or changed, symbol table = allocated symbols, free list duplicate-free and disjoint from allocated cells, no mark left behind).",
         "Forced collections use the verif hook (pretend-full flag around the real run_gc); reachability is the harness' own traversal of raw VM state; with a collection per instruction invariants are checked on the first 64 collections and every 4th thereafter.",
         "DESIGN.md section 4, C03"),
 "C04": ("grid enumeration + proptest-driven random compositions of tail contexts, oracle = stack high-water hook at n=10/10^3/10^5 plus closed-form value and non-tail twin",
         "Every single tail context (32, incl. contexts inside a datum handed to eval) x caller arity 0..4 x callee arity 0..4 x rest flags, self and 2-procedure mutual recursion, is run at n=10 and n=10^3 (a deterministic sample also at 10^5); random compositions of depth 1-3 over 1-3 procedures. The stack high-water mark at 10^3/10^5 must be within 16 slots of the one at n=10, the value must equal the closed form and the non-tail twin.",
         "Stack high-water = maximum of sp over pushes and instruction boundaries (verif hook). n is sampled at three points, not proved for all n; the threshold is >2 orders of magnitude away from the failing behaviour (>= 4 slots per iteration).",
         "DESIGN.md section 4, C04"),
 "C05": ("differential against a reference interpreter with persistent multi-shot continuations over proptest-driven typed program generation with call/cc productions",
         "Sessions with call/cc at operand, tail and nested positions; continuations escape, return normally, are stored in globals and re-entered 0-3 times (counter-guarded) from the same form, from procedures, loops, for-each callbacks and later top-level forms. Deep captures (up to 600 pending calls) are re-entered from later shallow and deep forms and after a failed evaluation. Values, failures and output are compared form by form with the reference interpreter in four VMs (fresh, second fresh, polluted, and one with collections forced at pseudo-random instructions and after every form).",
         "Trusts the reference interpreter's continuation model (REPL semantics for the bottom frame, pinned by the suite). Continuations receive exactly one value; map callbacks neither capture nor invoke continuations.",
         "DESIGN.md section 4, C05"),
 "C06": ("exhaustive / sampled enumeration of single calls (every global procedure of the running Vm x arity 0..5 x a palette of boundary values of every kind) and proptest-driven text generators (random Unicode, token soup, mutated corpus programs, an evaluation-oriented soup) against a totality oracle: no panic (catch_unwind + hook), no abort or stall (journal + watchdog, instruction budgets), every Err renders, every value renders in display and write mode, the same Vm then evaluates canary forms correctly",
         "Structured domain: each of the ~168 global procedures (builtins and prelude procedures, found at run time with procedure?) is called with every tuple of palette expressions at arity 0, 1 and 2 (97 values: empty / one-element / shared / nested / 60-deep containers; 0, +-1, i32 and i64 extremes +-1, bignums incl. a small value carried as a bignum, rationals incl. integer-valued and +-2^31 numerators, +-inf, NaN, -0.0, denormal; non-ASCII characters, strings and symbols; builtin, closure and variadic procedures, a stored continuation, macro objects, the unspecified value), and at arity 3..5 with sampled tuples aimed at the kinds each position wants (thorough: arity 3 exhaustive over the palette for the procedures that take three arguments); circular lists and self-containing vectors go to list?, length, equal?, display, write and are returned as the value of an evaluation. Each call runs through parse_text + prepare_eval + run_count(200000) in a reused Vm, followed by a define + closure call + reference canary in the same Vm. Text domain: scan, parse datum by datum, evaluate under an instruction budget (whole and in random slices of 1..40 instructions), highlight and highlight_check at random cursors. Exploration: 1.7 M cases quick / 52 M thorough; holds on all of them except the listed known findings (calls that never return on circular data, map/for-each without a list); the cells listed as never returning are not executed in the search tier, their reproducers run in the regression tier in a forked child.",
         "Allocation sizes and exponents are bounded as in the statement (make-vector / make-string sizes <= 10^6, and size x container fill <= 10^6; expt exponents <= 10^6, <= 1000 for integer bases of magnitude > 2). Exhausting the 200000-instruction budget counts as a failure only in the structured domain, whose programs are single calls on small finite data with terminating argument procedures; in the text domain budget exhaustion, stalls, allocation failures and a diverging macro expansion (texts containing syntax-rules are evaluated in a forked child) are never failures, and texts nesting deeper than 64 are discarded. After a text that defines or assigns, only a constant is used as canary. Only the checked build profile is run (arithmetic overflow panics).",
         "DESIGN.md section 4, C06; section 3.3"),
 "C12": ("parameterised garbage-loop templates (one per allocation kind) x live-set size x n vs 10n, oracle = plateau of heap/stack capacity (hooks) and process live bytes (counting allocator) + exactness of every collection against an independent reachability traversal",
         "22 templates (16 in-VM loops incl. checkpoint continuations handed to a recording helper, 6 harness-driven sequences of top-level evaluations incl. evaluations that fail at compile time) x live set {0,10,1000} are run for n and 10n iterations (quick n=20000, thorough 200000); heap capacity, stack capacity and live bytes after 10n must be <= 1.5x those after n plus a fixed slack, the live set's checksum must be intact, and after every collection no cell unreachable by the harness' own traversal may remain allocated (a saved stack counts as a root only up to its saved sp).",
         "Growth is decided at two sizes with a threshold that a one-cell-per-iteration leak exceeds several times over; live bytes come from a counting global allocator of the harness process.",
         "DESIGN.md section 4, C12"),
 "C13": ("differential (uninterrupted vs sliced run of the same build) over generated sessions x generated budget sequences, with progress invariants from the instruction-counter hook",
         "Each generated session (call/cc productions on) is run uninterrupted in one VM and with prepare_eval + run_count(b_i) in another, for constant budgets 1..64 and random log-uniform budget sequences in 1..10^4; per-form value/failure/output and the final value of every session global must agree, every slice must stay within its budget, and the number of resumes is bounded by the uninterrupted instruction count. Constant budgets 1..64 are swept exhaustively over 8 fixed programs.",
         "The uninterrupted run is the reference (its own correctness is C01/C05's business); programs are first screened by the reference interpreter so that diverging programs are excluded.",
         "DESIGN.md section 4, C13"),
 "C10": ("proptest-driven recursive datum generator (choice sequences, shrinking) with a round-trip oracle: write -> read -> write, and quote through the VM heap both as a cell and as text; strict structural comparison in the harness",
         "Every generated datum (booleans; finite doubles by bit pattern, boundary list, decimal strings and around the printer's 1e10 switch; integers across +-2^63 as fixnum and bignum cells; reduced rationals within i32; characters and strings of every Unicode class; symbols from the lexer's identifier grammar that the reader itself produces; lists, improper lists, vectors, quote forms and degenerate quote spellings to depth 6) is written, read back, rewritten and evaluated under quote. Exploration: the round trip holds on everything generated, nothing beyond.",
         "The symbol domain is defined by the reader itself (parse_text(s) = Symbol(s), nothing remaining), as the statement says; exact integers of any representation count as one value; comparison is by the harness' own strict equality, not the SUT's PartialEq.",
         "DESIGN.md section 4, C10"),
 "C11": ("proptest-driven text generators (random Unicode, token soup, character/token/subtree mutations of corpus programs and datum texts, well-formed datum sequences by construction) against span invariants, a reference gap scanner, a reference token-class parser for datum extents, and exhaustive token-boundary prefix cuts",
         "Every generated text is scanned and parsed datum by datum: no panic, spans non-empty/in bounds/on char boundaries/ordered, gaps only whitespace and comments, remaining text exactly at the first token after the datum (reference extent), loop visits each datum once. Every token-boundary prefix of every generated well-formed datum (with and without a whitespace/comment trailer) must be Incomplete and the complete datum must not. Exploration: holds on everything generated (one recorded known finding), nothing beyond.",
         "Which texts are errors is not asserted. Datum extents come from the harness' parser over the scanner's token types; for well-formed texts cut points and expected remaining offsets are the generator's own. A hang would be attributed by an in-worker watchdog and counts as a violation.",
         "DESIGN.md section 4, C11"),
 "C07": ("fault injection into proptest-generated sessions (failing forms of every kind at every depth, repeated), differential against the reference interpreter and against a fresh VM that performed only the completed effects; resource ladder via the stack/heap hooks",
         "Sessions from the program generator get 1-4 injected failing forms (7 run-time error kinds at call depth 0..200, inside/outside a call/cc receiver, after 0-2 completed effects; bad syntax; unbalanced text; repetition up to 12x); in half of the sessions a continuation captured under 10-300 pending calls is re-entered after every failure. Every later form is compared with the reference interpreter; last_stacktrace() after a failing form (run-time, compile-time or read error) is compared with the one in a fresh VM that only performed the completed effects; sp must return to its fresh value; a ladder of k in {1,2,10,100(,1000)} consecutive failures x depth x kind (run-time kinds, and compile-time failures that have already allocated; those up to 5000) must not grow sp, stack capacity, trace length or live heap.",
         "Failing forms are built so that their completed-effects prefix is known by construction. Live heap is measured after a forced collection.",
         "DESIGN.md section 4, C07"),
 "C08": ("boundary-value grid + proptest-driven palette operands in every internal representation against exact BigRational arithmetic (reference model), plus a metamorphic relation (same mathematical operands, different representation => same answer)",
         "Every pair of ~100 boundary values (0, +-1, +-2, within 2 of +-2^31/2^32/2^53/2^63/2^64, edge rationals) under + - * / quotient remainder modulo, every boundary value under abs floor ceiling truncate numerator denominator and under expt with 10 exponents, each in every combination of representations (fixnum, bignum also for small values, n/1, n/d), plus 16 x 25k (quick) / 16 x 400k (thorough) random palette cases (random 32..256-bit integers, reduced rationals, results landing on a boundary, + and * on 2..5 operands). Exploration: holds on everything generated except the listed known findings, nothing beyond.",
         "Trusts num's BigInt/BigRational. 'Representable' is marwood's documented exact model (any integer; n/d with 32-bit parts). Only the checked build (overflow panics) is exercised; panics and wrong exact values are one failure kind. The 41 known-finding classes are tolerated by input class, so another defect inside such a class with the same failure kind would be masked.",
         "DESIGN.md section 4, C08"),
 "C09": ("boundary-value grid + proptest-driven pairs/triples/lists in every internal representation against exact comparison in BigRational with exactly converted doubles (reference model); self-consistency relations for transitivity and variadic forms",
         "Every unordered pair of ~110 boundary exact values, each against its five neighbouring doubles and 16 special doubles (+-0.0, subnormals, +-2^53, +-2^63, +-max, +-inf), in every representation combination, under < = > <= >= (both argument orders), min, max; plus 16 x 40k (quick) / 16 x 600k (thorough) random pairs, triples (transitivity, variadic, min/max), lists of 2..6 (variadic = conjunction over adjacent pairs) and sign predicates. Exploration.",
         "Trusts num's BigRational and the harness' bit-level double conversion. NaN excluded. Seven known-finding classes (by operand-pair class, all operators of a family) are tolerated; a violated transitivity in a triple with a tolerated pairwise failure is counted, not reported.",
         "DESIGN.md section 4, C09"),
 "C16": ("round trip (print then read) and differential (literal in program text vs string->number) over the numeric palettes and random numbers, compared by the harness' strict numeric equality",
         "All boundary exact values in every representation at radix 2, 8, 10, 16, their neighbouring doubles and special doubles at radix 10, plus 16 x 100k (quick) / 16 x 2M (thorough) random fixnums, bignums up to 512 bits, rationals of both signs and finite doubles (by bit pattern and around the 1e10 notation switch); every printed spelling is also evaluated as a literal (#b/#o/#d/#x prefix, bare at radix 10). Exploration.",
         "Equality is the harness' (same exactness, same value; +-0.0 identified), not the SUT's. Two known-finding classes (negative fixnums / negative rationals at radix 2, 8, 16) are tolerated.",
         "DESIGN.md section 4, C16"),
 "C18": ("proptest-driven generation of name pairs x production routes x collection events, oracle = name equality (eq? iff same string), conversion round trips, and the collector's symbol-table invariant via the reachability traversal",
         "Pairs of names over a hostile alphabet are produced by two of seven routes (literal, quoted list, string->symbol, macro output, eval, round trips) with nothing, a forced collection, garbage plus collections, the end of the evaluation or a collection at every k-th instruction in between, the first product kept or dropped; eq? must hold exactly for equal names, both conversion round trips must be identities, and the symbol table must match the allocated symbol cells at every observed collection.",
         "Reader-dependent routes are used only for names the reader spells as that symbol; data is injected as Cell values; forced collections use the verif hook.",
         "DESIGN.md section 4, C18"),
 "C19": ("scenario grid + choice-sequence-generated mixed shapes, one isolated child process per scenario; oracle = exit status of the child (death by signal = native stack exhaustion), phases announced by the child attribute a death to an operation",
         "Every cell of {cdr-list, car-list, nested vectors, quote chain, closure chain, continuation chain, non-tail recursion, nested call expression, nested let expression} x {read, quote-evaluate, build at run time, keep live across a forced collection, equal?, write/convert to result, drop, evaluate} that makes sense (45 cells) is run at depth 10^3, 10^4 and 10^5 on an 8 MiB main thread and on a 2 MiB thread in the checked build (quick: 340 children incl. 48 random mixed-direction shapes) and additionally in the plain release build with 2000 random shapes (thorough: ~2600 children). A child that dies by a signal in an announced phase is a violation of the cell (direction, operation of that phase); normal exit with a result or a reported error is required. Exploration: 17 cells (long proper lists except quote-evaluate and drop, non-tail recursion, dropping/printing closure and continuation chains, shapes with fewer than 1000 non-cdr levels) hold at every depth; the other cells abort from 10^4 (2 MiB) or 10^5 levels and are recorded as known findings per cell, still executed and reported, but unable to raise a violation.",
         "Signatures carry no depth/thread/profile, so a listed cell would not report a new, shallower recursion in the same operation. Allocation failure (8 GiB address-space limit) and timeouts are inconclusive. Quick leaves expr-*|eval at 10^4 on the main thread (about a minute of CPU each, compile time grows faster than n^2) to the thorough tier. A panic inside a scenario is reported under its own signature kind; an Err is accepted as 'reports an error'.",
         "DESIGN.md section 4, C19"),
 "C14": ("proptest-driven operation sequences (choice-byte decoder) against a reference store model with object identity; full content read-back of every pool object and mutation-probe identity audits after every operation; structural (step-deletion) minimisation",
         "Operation sequences (2..8 object definitions, then <= 12 operations) over a pool of <= 8 lists (proper, improper, shared tails), vectors (empty, nested) and scalars; every procedure of the statement, indices from -1..len+1 and far beyond. After each operation the result (value / must-error / unspecified), the entire contents of all pool objects and the identity of every shared object are compared with the model. Exploration: 32k sequences (quick) / 960k (thorough); holds on everything generated except the listed known findings, nothing beyond.",
         "Trusts the harness' store model (mwv-core/src/store.rs, written from R7RS 6.4/6.8/6.1). Known-finding triggers are generated at a 1-in-8 probe rate and a sequence is not compared further after a tolerated state-changing step (counted in evidence: seq:cut-short-after-known-finding). vector-copy's end argument, wrong-type container arguments and cyclic data are outside the domain.",
         "DESIGN.md section 4, C14"),
 "C15": ("proptest-driven operation sequences against a Vec<char> string store model with identity; metamorphic relation for case-insensitive predicates (SUT's own fold); Rust std Unicode tables for case conversion and character predicates",
         "Operation sequences (2..5 string definitions, some aliased, then <= 10 operations) over strings mixing 1-, 2-, 3-, 4-byte characters and the empty string; start/end/index from -1..len+1 and far beyond, fill/set characters of every width, integer->char across the surrogate range, above 0x10FFFF, negative and huge. After each operation the result and every pool string are compared with the model; invalid indices/ranges/scalar values must be reported as errors. Exploration: 64k sequences (quick) / 1.9M (thorough); holds on everything generated except the listed known findings, nothing beyond.",
         "Trusted base: Rust std Unicode tables (stated in the evidence); characters whose case mapping or folding std cannot decide one-to-one are not checked for that operation. Known-finding triggers are generated at a 1-in-8 probe rate. string-fill! with start = length keeps its end argument small (the SUT would allocate end-start bytes there: see the known finding).",
         "DESIGN.md section 4, C15"),
 "C20": ("exhaustive enumeration over a lexeme alphabet + proptest-driven Unicode token soup against a reference bracket matcher",
         "Every string of <=5 (quick) / <=7 (thorough) lexemes over the 11-lexeme alphabet with every cursor position is checked against the harness' own tokenizer and partner search (finite space enumerated completely), plus random Unicode token soup with random cursors. Exploration: holds on everything enumerated/generated, nothing beyond.",
         "Trusts the harness' reference tokenizer/partner search; random texts use the SUT scanner for token spans (checked by C11).",
         "DESIGN.md section 4, C20"),
}

NOT_YET = {}
ALL = ["C%02d" % i for i in range(1, 21)]

def main():
    checks = []
    for pid in ALL:
        if pid in CHECKS:
            tech, text, note, ref = CHECKS[pid]
            checks.append({
                "property_id": pid,
                "quick_cmd": "./check %s quick" % pid,
                "thorough_cmd": "./check %s thorough" % pid,
                "evidence_file": "/verif/evidence/%s.json" % pid,
                "replay_cmd_template": "./check --replay {path}",
                "engine": "mwv",
                "level_claimed": {"category": "exploration", "text": text, "design_ref": ref},
                "level_note": note,
                "technique": tech,
            })
    na = [{"property_id": p, "reason": NOT_YET.get(p, "check not built yet in this round (planned, see DESIGN.md section 4); not a statement that the technique cannot apply")}
          for p in ALL if p not in CHECKS]
    m = {
        "version": 1,
        "setup_cmd": "./check --build",
        "hooks": {
            "guard": "cargo feature `verif` of crate marwood",
            "enable": "harness/mwv/Cargo.toml depends on marwood = { path = \"../../sut\", features = [\"verif\"] } where /verif/sut is a symlink to /repo/marwood (re-pointed by ./check; VERIF_REPO=<dir> selects a scratch copy for sensitivity experiments)",
            "baseline_off_cmd": "cd /repo && cargo test --workspace --no-fail-fast --offline",
            "source_commits": ["bb1ef1b"],
            "add_only": True,
        },
        "engines": [{
            "name": "mwv",
            "path": "/verif/harness",
            "serves_properties": sorted(CHECKS.keys()),
            "kind_free_text": "Rust harness: proptest-driven choice-sequence generators, exhaustive enumerators and grids, reference models (mwv-core), driver/worker processes with watchdog, replay and known-finding matching",
        }],
        "checks": checks,
        "not_applicable": na,
        "notes": "All checks: ./check <ID> <quick|thorough>; replay: ./check --replay <file>. Known findings: /verif/KNOWN_FINDINGS.txt with reproducers in /verif/replays/known (and /verif/replays/fixed for repaired defects).",
    }
    with open(os.path.join(ROOT, "MANIFEST.json"), "w") as f:
        json.dump(m, f, indent=1)
        f.write("\n")

if __name__ == "__main__":
    main()
