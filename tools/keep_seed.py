#!/usr/bin/env python3
"""Archive a confirmed seeded defect under /verif/seeded/<ID>-<mK>/ (patch.diff, demonstration, meta.json).
usage: [SEED_ROOT=/tmp/seed2-out KEEP_AS=m3] keep_seed.py <ID> <mK> <needs> <caught_by> [<missed_by>] [<notes>]"""
import sys, os, shutil, json, glob
root = os.path.dirname(os.path.dirname(os.path.abspath(__file__)))
pid, m, needs, caught = sys.argv[1:5]
missed = sys.argv[5] if len(sys.argv) > 5 else ""
notes = sys.argv[6] if len(sys.argv) > 6 else ""
seed_root = os.environ.get('SEED_ROOT', '/tmp/seed-out')
src = '%s/%s/%s' % (seed_root, pid, m)
keep_as = os.environ.get('KEEP_AS', m)
dst = os.path.join(root, 'seeded', '%s-%s' % (pid, keep_as))
os.makedirs(dst, exist_ok=True)
for f in glob.glob(src + '/*'):
    if os.path.isfile(f) and os.path.getsize(f) < 200000:
        shutil.copy(f, dst)
# shared demo runners the agent wrote next to the mutants
for f in glob.glob('%s/%s/*.rs' % (seed_root, pid)):
    shutil.copy(f, dst)
meta = {
    "property": pid,
    "mutant": keep_as,
    "breaks": "see notes.md (written by the seeding agent, which had only the property text and a scratch worktree)",
    "needs_to_manifest": needs,
    "confirmed": {
        "applies_to": "scratch copy of /repo at the HEAD current when tested (git apply)",
        "suite": "cargo test --workspace --no-fail-fast --offline: 163 passed, 0 failed with the change applied",
        "demonstration": "demo differs with vs. without the change (tools/try_seed.sh: `mwv run demo.scm` on both trees, or the agent's demo.rs as recorded in notes.md)",
    },
    "ran": "tools/try_seed.sh %s %s \"...\" (VERIF_REPO=<scratch copy> ./check <ID> quick)" % (pid, m),
    "caught_by": [c for c in caught.split(',') if c],
    "missed_by": [c for c in missed.split(',') if c],
    "notes": notes,
}
json.dump(meta, open(os.path.join(dst, 'meta.json'), 'w'), indent=1)
print('kept', dst)
