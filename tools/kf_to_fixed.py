#!/usr/bin/env python3
"""Bookkeeping after a repair in /repo: turn listed findings into `fixed:` entries.
usage: kf_to_fixed.py <property> <commit> <sig-substring> [<sig-substring> ...]
Every `finding:` line of the property whose signature contains one of the substrings is replaced by a
`fixed:` line (same text), and the reproducers in replays/known whose recorded signature matches the
removed listed signatures move to replays/fixed (where the regression tier requires them to PASS)."""
import sys, os, json, glob, re
root = os.path.dirname(os.path.dirname(os.path.abspath(__file__)))
prop, commit, subs = sys.argv[1], sys.argv[2], sys.argv[3:]
lines = open(os.path.join(root, 'KNOWN_FINDINGS.txt')).read().split('\n')
out, removed = [], []
for l in lines:
    m = re.match(r'finding: property=(\S+) sig=(.*?) :: (.*)', l)
    if m and m.group(1) == prop and any(s in m.group(2) for s in subs):
        removed.append(m.group(2))
        out.append('fixed: property=%s %s %s [was sig=%s]' % (prop, commit, m.group(3), m.group(2)))
    else:
        out.append(l)
open(os.path.join(root, 'KNOWN_FINDINGS.txt'), 'w').write('\n'.join(out))
def matches(listed, sig):
    return listed == sig or (listed.endswith('*') and sig.startswith(listed[:-1]))
moved = 0
for f in glob.glob(os.path.join(root, 'replays/known/%s-*.json' % prop)):
    r = json.load(open(f))
    if any(matches(l, r.get('sig', '')) for l in removed):
        os.rename(f, os.path.join(root, 'replays/fixed', os.path.basename(f)))
        moved += 1
print('findings converted:', len(removed), 'reproducers moved:', moved)
