#!/usr/bin/env python3
"""Regenerates seeded/README.md from the meta.json files."""
import json, glob, os
root = os.path.dirname(os.path.dirname(os.path.abspath(__file__)))
rows = []
for f in sorted(glob.glob(os.path.join(root, 'seeded/*/meta.json'))):
    m = json.load(open(f))
    rows.append(m)
out = ["# Seeded defects", "",
       "Written by independent sub-agents that were given only the text of one property and a scratch worktree of",
       "/repo (nothing from /verif). Each change compiles, passes the pinned suite unedited, and breaks the property",
       "only under a specific trigger; each was confirmed here (patch applies to a scratch copy, suite green with it,",
       "the demonstration differs with vs. without the change) before the quick checks were run against it with",
       "`tools/try_seed.sh` (`VERIF_REPO=<scratch copy> ./check <ID> quick`). None of them is ever applied to /repo.\nEvery `patch.diff` (or `patch.ported.diff` where later repairs had changed the context) applies to /repo at its\nfinal commit 3e860cd (`git apply --check`, verified for all of them at the end).", "",
       "| seed | needs, in order to manifest | caught by | missed by | note |", "|---|---|---|---|---|"]
for m in rows:
    out.append("| %s-%s | %s | %s | %s | %s |" % (m['property'], m['mutant'], m['needs_to_manifest'].replace('|', '/'),
               ', '.join(m['caught_by']) or '-', ', '.join(m['missed_by']) or '-', m.get('notes', '').replace('|', '/')))
caught = sum(1 for m in rows if m['caught_by'])
out += ["", "%d seeded defects kept, %d caught by at least one quick check." % (len(rows), caught), ""]
open(os.path.join(root, 'seeded/README.md'), 'w').write('\n'.join(out))
print(len(rows), caught)
