#!/bin/bash
# usage: [SEED_ROOT=/tmp/seed2-out] tools/try_seed.sh <ID> <mK> "<check ids>"   (run from a worktree of /verif dedicated to seed testing)
# Confirms a seeded defect (applies to a scratch copy of /repo, suite passes, demo differs) and runs checks against it.
ID=$1; M=$2; CHECKS=$3
HERE="$(cd "$(dirname "$0")/.." && pwd)"
SRC=${SEED_ROOT:-/tmp/seed-out}/$ID/$M
SCR=/tmp/seedscr-$ID-$M
PATCH=$SRC/patch.diff; [ -f $SRC/patch.ported.diff ] && PATCH=$SRC/patch.ported.diff
rm -rf $SCR; rsync -a --exclude target /repo/ $SCR/ || exit 2
cd $SCR && git checkout -q -- . 2>/dev/null
if ! git apply --check $PATCH 2>/dev/null; then echo "PATCH-DOES-NOT-APPLY to current /repo HEAD"; git apply --3way $PATCH 2>&1 | tail -2 || exit 3; else git apply $PATCH; fi
echo "== diff"; git diff --stat | tail -3
echo "== suite (with change)"; CARGO_TARGET_DIR=/tmp/seedscr-target timeout 900 cargo test --workspace --no-fail-fast --offline 2>&1 | grep -E "^test result|^error" | awk '/test result/{s+=$4; f+=$6} /^error/{print} END {print "passed", s, "failed", f}'
cd $HERE
if [ -f $SRC/demo.scm ]; then
  echo "== demo.scm with change"; VERIF_REPO=$SCR ./check --build && harness/target/release/mwv run $SRC/demo.scm 2>/dev/null > /tmp/seedscr-$ID-$M.with.txt; 
  echo "== demo.scm without change"; ./check --build && harness/target/release/mwv run $SRC/demo.scm 2>/dev/null > /tmp/seedscr-$ID-$M.without.txt
  diff /tmp/seedscr-$ID-$M.without.txt /tmp/seedscr-$ID-$M.with.txt | head -10
fi
for c in $CHECKS; do
  echo "== check $c (quick) against the seeded tree"
  VERIF_REPO=$SCR timeout 2400 ./check $c quick > /tmp/seedscr-$ID-$M.$c.out 2>&1; echo "exit=$?"
  grep -E "^VIOLATION|^  sig|quick:|BUILD" /tmp/seedscr-$ID-$M.$c.out | cut -c1-260 | head -8
  echo "inconclusive lines: $(grep -c '^INCONCLUSIVE' /tmp/seedscr-$ID-$M.$c.out)"; grep -E "^INCONCLUSIVE" /tmp/seedscr-$ID-$M.$c.out | cut -c1-200 | head -2
done
./check --build
rm -rf $SCR
